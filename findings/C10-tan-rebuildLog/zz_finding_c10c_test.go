// Demonstration for property C10 (crash atomicity under injected I/O errors): after a crash that
// leaves a torn record at the tail of the last tan log, reopen rebuilds the log by copying its
// valid records into a temporary file and renaming it over the log. db.rebuildLog performed the
// rename even when the copy had failed, so an I/O error during the rebuild replaced the log by
// the partial copy: the next (fault-free) reopen had lost acknowledged, synced records.
package tan

import (
	"errors"
	"math"
	"os"
	"testing"

	pb "github.com/lni/dragonboat/v4/raftpb"
	"github.com/lni/vfs"
)

var errInjectedC10c = errors.New("injected write error")

type c10cFile struct {
	vfs.File
	writes *int
	failAt int
}

func (f *c10cFile) Write(p []byte) (int, error) {
	*f.writes++
	if *f.writes >= f.failAt {
		return 0, errInjectedC10c
	}
	return f.File.Write(p)
}

// c10cFS fails writes to one named file from the failAt-th write on
type c10cFS struct {
	vfs.FS
	target string
	failAt int
	writes int
}

func (fs *c10cFS) Create(name string) (vfs.File, error) {
	f, err := fs.FS.Create(name)
	if err != nil || name != fs.target {
		return f, err
	}
	return &c10cFile{File: f, writes: &fs.writes, failAt: fs.failAt}, nil
}

func TestFindingC10TanRebuildLogKeepsLogOnError(t *testing.T) {
	fs := vfs.Default
	dirname := "db-dir-c10c"
	_ = fs.RemoveAll(dirname)
	if err := fs.MkdirAll(dirname, 0700); err != nil {
		t.Fatal(err)
	}
	defer func() { _ = fs.RemoveAll(dirname) }()
	opts := &Options{MaxManifestFileSize: MaxManifestFileSize, FS: fs}
	d, err := open(dirname, dirname, opts)
	if err != nil {
		t.Fatal(err)
	}
	buf := make([]byte, 1024)
	const n = 20
	for i := uint64(1); i <= n; i++ {
		u := pb.Update{ShardID: 2, ReplicaID: 3,
			EntriesToSave: []pb.Entry{{Index: i, Term: 5, Cmd: make([]byte, 32)}}}
		if _, err := d.write(u, buf); err != nil {
			t.Fatal(err)
		}
		if err := d.sync(); err != nil { // every save is acknowledged only after the fsync
			t.Fatal(err)
		}
	}
	logNum := d.mu.logNum
	if err := d.close(); err != nil {
		t.Fatal(err)
	}
	// crash image: the last record is torn and the index of the last log was never written
	logFn := makeFilename(fs, dirname, fileTypeLog, logNum)
	lf, err := os.OpenFile(logFn, os.O_RDWR, 0755)
	if err != nil {
		t.Fatal(err)
	}
	fi, _ := lf.Stat()
	if err := lf.Truncate(fi.Size() - 16); err != nil {
		t.Fatal(err)
	}
	_ = lf.Close()
	_ = fs.RemoveAll(makeFilename(fs, dirname, fileTypeIndex, logNum))
	// reopen with a storage error while the log is being rebuilt
	ffs := &c10cFS{FS: fs, target: makeFilename(fs, dirname, fileTypeLogTemp, logNum), failAt: 3}
	if d2, err := open(dirname, dirname, &Options{MaxManifestFileSize: MaxManifestFileSize, FS: ffs}); err == nil {
		_ = d2.close()
		t.Fatalf("open was expected to fail with the injected error")
	}
	// fault-free reopen: the 19 complete, acknowledged records must still be there
	d3, err := open(dirname, dirname, opts)
	if err != nil {
		t.Fatalf("reopen: %v", err)
	}
	defer func() { _ = d3.close() }()
	got, _, err := d3.getEntries(2, 3, nil, 0, 1, n+1, math.MaxUint64)
	if err != nil {
		t.Fatalf("getEntries: %v", err)
	}
	if len(got) != n-1 {
		t.Errorf("after a failed log rebuild only %d of the %d acknowledged entries are readable", len(got), n-1)
	}
}
