// Demonstration (replay of the failed obligation logdb.db.saveRaftState/post#1): a storage
// error while saving an update that carries a snapshot record is reported as success.
// Place into internal/logdb/ and run:
//   go test -count=1 -run 'TestFindingC10SaveRaftStateSwallowsStorageError' ./internal/logdb/
package logdb

import (
	"errors"
	"testing"

	"github.com/lni/dragonboat/v4/internal/logdb/kv"
	"github.com/lni/dragonboat/v4/internal/vfs"
	"github.com/lni/dragonboat/v4/raftio"
	pb "github.com/lni/dragonboat/v4/raftpb"
)

var errInjectedC10 = errors.New("injected storage error")

// failingKV delegates to the real store but fails IterateValue while armed
type failingKV struct {
	kv.IKVStore
	armed   bool
	commits int
}

func (f *failingKV) IterateValue(fk []byte, lk []byte, inc bool,
	op func(key []byte, data []byte) (bool, error)) error {
	if f.armed {
		return errInjectedC10
	}
	return f.IKVStore.IterateValue(fk, lk, inc, op)
}

func (f *failingKV) CommitWriteBatch(wb kv.IWriteBatch) error {
	f.commits++
	return f.IKVStore.CommitWriteBatch(wb)
}

func TestFindingC10SaveRaftStateSwallowsStorageError(t *testing.T) {
	fs := vfs.GetTestFS()
	tf := func(t *testing.T, ldb raftio.ILogDB) {
		sdb := ldb.(*ShardedDB)
		d := sdb.shards[sdb.partitioner.GetPartitionID(3)]
		fk := &failingKV{IKVStore: d.kvs}
		d.kvs = fk
		ud := pb.Update{
			ShardID:       3,
			ReplicaID:     4,
			State:         pb.State{Term: 5, Vote: 2, Commit: 1},
			EntriesToSave: []pb.Entry{{Index: 10, Term: 5}},
			Snapshot:      pb.Snapshot{Index: 10, Term: 5, ShardID: 3},
		}
		fk.armed = true
		err := d.saveRaftState([]pb.Update{ud}, newContext(1, 0))
		fk.armed = false
		if err == nil {
			t.Errorf("storage reported an error during the save, but saveRaftState returned success (commits issued: %d)", fk.commits)
		}
	}
	runLogDBTestAs(t, false, tf, fs)
}
