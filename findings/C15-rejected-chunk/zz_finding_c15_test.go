// Demonstration for property C15: "a stream with a lost or corrupt chunk never finalizes".
// All chunks of a snapshot are delivered in order; one byte of an early chunk is corrupted in
// transit. The incremental validator rejects that chunk (Chunk.Add returns false, the chunk is
// not written), but the stream stayed tracked with its next-expected id already advanced, the
// following chunks were accepted, the final Validate() (which only looks at what is still
// buffered) passed, and a snapshot file with the rejected chunk's bytes missing was finalized
// and announced with an InstallSnapshot message.
package transport

import (
	"crypto/rand"
	"fmt"
	"testing"

	"github.com/lni/dragonboat/v4/internal/rsm"
	"github.com/lni/dragonboat/v4/internal/server"
	"github.com/lni/dragonboat/v4/internal/settings"
	"github.com/lni/dragonboat/v4/internal/vfs"
	pb "github.com/lni/dragonboat/v4/raftpb"
)

func TestFindingC15CorruptChunkNeverFinalizes(t *testing.T) {
	const root = "c15_finding_safe_to_delete"
	fs := vfs.GetTestFS()
	_ = fs.RemoveAll(root)
	defer func() { _ = fs.RemoveAll(root) }()
	var received []pb.MessageBatch
	dir := func(shardID uint64, replicaID uint64) string {
		return fs.PathJoin(root, fmt.Sprintf("snapshot-%d-%d", shardID, replicaID))
	}
	chunks := NewChunk(func(mb pb.MessageBatch) { received = append(received, mb) },
		func(uint64, uint64, uint64) {}, dir, settings.UnmanagedDeploymentID, fs)
	if err := fs.MkdirAll(dir(100, 2), 0755); err != nil {
		t.Fatal(err)
	}
	// a real checksummed snapshot file spanning six chunks
	srcDir := fs.PathJoin(root, "src")
	if err := fs.MkdirAll(srcDir, 0755); err != nil {
		t.Fatal(err)
	}
	fp := fs.PathJoin(srcDir, server.GetSnapshotFilename(700))
	payload := make([]byte, 11*snapshotChunkSize/2)
	if _, err := rand.Read(payload); err != nil {
		t.Fatal(err)
	}
	w, err := rsm.NewSnapshotWriter(fp, pb.NoCompression, fs)
	if err != nil {
		t.Fatal(err)
	}
	if _, err := w.Write(payload); err != nil {
		t.Fatal(err)
	}
	if err := w.Close(); err != nil {
		t.Fatal(err)
	}
	fi, err := fs.Stat(fp)
	if err != nil {
		t.Fatal(err)
	}
	msg := pb.Message{Type: pb.InstallSnapshot, From: 12, To: 2, ShardID: 100,
		Snapshot: pb.Snapshot{Index: 700, Term: 7, Filepath: fp, FileSize: uint64(fi.Size())}}
	cs, err := splitSnapshotMessage(msg, fs)
	if err != nil {
		t.Fatal(err)
	}
	for i := range cs {
		cs[i].DeploymentId = settings.UnmanagedDeploymentID
		data, err := loadChunkData(cs[i], nil, fs)
		if err != nil {
			t.Fatal(err)
		}
		cs[i].Data = data
	}
	if len(cs) < 5 {
		t.Fatalf("expected at least 5 chunks, got %d", len(cs))
	}
	// corrupt one byte of chunk 1; every chunk is still delivered, in order
	cs[1].Data[len(cs[1].Data)/2] ^= 0x5A
	rejected := 0
	for _, c := range cs {
		if !chunks.Add(c) {
			rejected++
		}
	}
	if rejected == 0 {
		t.Fatalf("the corrupted chunk was not rejected")
	}
	env := chunks.getEnv(cs[0])
	if _, err := fs.Stat(env.GetFinalDir()); err == nil {
		t.Errorf("a stream with a corrupt (rejected) chunk was finalized")
	}
	if len(received) != 0 {
		t.Errorf("an InstallSnapshot message was delivered for a stream with a corrupt (rejected) chunk")
	}
}
