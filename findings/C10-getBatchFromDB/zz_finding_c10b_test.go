// Demonstration for property C10 ("if the underlying storage reports an error during a save,
// the save fails"): with the batched entry format, saving entries whose first batch is not
// batch-aligned reads the stored batch back (batchedEntries.getBatchFromDB) in order to merge
// with it. A storage error on that read was treated as "no such batch": the save returned
// success and the stored batch was overwritten by the new entries only, losing entries that
// earlier saves had acknowledged.
package logdb

import (
	"errors"
	"testing"

	"github.com/lni/dragonboat/v4/internal/logdb/kv"
	"github.com/lni/dragonboat/v4/internal/vfs"
	"github.com/lni/dragonboat/v4/raftio"
	pb "github.com/lni/dragonboat/v4/raftpb"
)

var errInjectedC10b = errors.New("injected storage read error")

type failingGetKV struct {
	kv.IKVStore
	armed bool
}

func (f *failingGetKV) GetValue(key []byte, op func([]byte) error) error {
	if f.armed {
		return errInjectedC10b
	}
	return f.IKVStore.GetValue(key, op)
}

func TestFindingC10BatchReadErrorIsNotTreatedAsAbsent(t *testing.T) {
	fs := vfs.GetTestFS()
	tf := func(t *testing.T, ldb raftio.ILogDB) {
		sdb := ldb.(*ShardedDB)
		d := sdb.shards[sdb.partitioner.GetPartitionID(3)]
		save := func(ents []pb.Entry) (err error) {
			defer func() {
				if r := recover(); r != nil {
					err = errors.New("panic") // fail-stop counts as a failed save
				}
			}()
			ud := pb.Update{ShardID: 3, ReplicaID: 4, EntriesToSave: ents,
				State: pb.State{Term: 1, Vote: 2, Commit: 1}}
			return d.saveRaftState([]pb.Update{ud}, newContext(1, 0))
		}
		if err := save([]pb.Entry{{Index: 1, Term: 1}, {Index: 2, Term: 1}, {Index: 3, Term: 1}}); err != nil {
			t.Fatalf("first save failed: %v", err)
		}
		// a restart leaves the in-memory cache of the last batch empty
		d.cs = newCache()
		fk := &failingGetKV{IKVStore: d.kvs}
		d.kvs = fk
		d.entries = newBatchedEntries(d.cs, d.keys, d.kvs)
		fk.armed = true
		err := save([]pb.Entry{{Index: 4, Term: 1}, {Index: 5, Term: 1}})
		fk.armed = false
		if err != nil {
			return // the save failed, as the property requires
		}
		ents, _, ierr := d.iterateEntries(nil, 0, 3, 4, 1, 6, 1<<30)
		t.Errorf("storage reported an error during the save, but saveRaftState returned success; "+
			"entries 1..5 read back afterwards: %d entries, err %v", len(ents), ierr)
	}
	runLogDBTestAs(t, true, tf, fs)
}
