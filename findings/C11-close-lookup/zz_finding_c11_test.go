package dragonboat

// Demonstration for property C11: for a plain (non-concurrent) IStateMachine, Lookup must
// never overlap Close. Client reads (ReadLocalNode / StaleRead -> StateMachine.Lookup ->
// NativeSM.Lookup) are not counted by the loaded/offloaded protocol; they are only protected
// by NativeSM.mu plus the destroyed flag. NativeSM.Close took neither: it ran the user Close
// without the lock and set the flag only afterwards, so a ReadLocalNode issued while the user
// Close was in progress ran the user Lookup concurrently with it.

import (
	"io"
	"sync/atomic"
	"testing"
	"time"

	"github.com/lni/dragonboat/v4/internal/vfs"
	sm "github.com/lni/dragonboat/v4/statemachine"
)

type c11SM struct {
	inClose      int32
	overlap      *int32
	closeStarted chan struct{}
}

func (s *c11SM) Update(e sm.Entry) (sm.Result, error) { return sm.Result{}, nil }
func (s *c11SM) Lookup(q interface{}) (interface{}, error) {
	if atomic.LoadInt32(&s.inClose) == 1 {
		atomic.StoreInt32(s.overlap, 1)
	}
	return q, nil
}
func (s *c11SM) SaveSnapshot(w io.Writer, fc sm.ISnapshotFileCollection, stopc <-chan struct{}) error {
	_, err := w.Write([]byte("x"))
	return err
}
func (s *c11SM) RecoverFromSnapshot(r io.Reader, fc []sm.SnapshotFile, stopc <-chan struct{}) error {
	return nil
}
func (s *c11SM) Close() error {
	atomic.StoreInt32(&s.inClose, 1)
	close(s.closeStarted)
	time.Sleep(time.Second) // a user Close that takes a while (closing files, ...)
	atomic.StoreInt32(&s.inClose, 0)
	return nil
}

func TestVerifFindingC11CloseDoesNotOverlapLookup(t *testing.T) {
	fs := vfs.GetTestFS()
	var overlap int32
	closeStarted := make(chan struct{})
	to := &testOption{
		createSM: func(uint64, uint64) sm.IStateMachine {
			return &c11SM{overlap: &overlap, closeStarted: closeStarted}
		},
		tf: func(nh *NodeHost) {
			rs, err := nh.ReadIndex(1, 5*time.Second)
			if err != nil {
				t.Fatalf("ReadIndex: %v", err)
			}
			if r := <-rs.ResultC(); !r.Completed() {
				t.Fatalf("ReadIndex did not complete")
			}
			if err := nh.StopShard(1); err != nil {
				t.Fatalf("StopShard: %v", err)
			}
			select {
			case <-closeStarted:
			case <-time.After(10 * time.Second):
				t.Fatalf("user Close not called")
			}
			// the read index request completed, so the local read is allowed by the API
			_, _ = nh.ReadLocalNode(rs, []byte("q"))
			if atomic.LoadInt32(&overlap) == 1 {
				t.Errorf("user state machine Lookup() ran while its Close() was in progress")
			}
		},
	}
	runNodeHostTest(t, to, fs)
}
