package rsm

// Demonstration for finding C14-header-crc (run with: go test -count=1 -run TestFindingC14HeaderBitFlip ./internal/rsm/
// after copying this file into internal/rsm/, or through `go test -overlay`).
//
// A snapshot image written by SnapshotWriter with Snappy compression: flipping ONE bit of the file (the
// CompressionType byte inside the 1KB header) must make reading fail or still give the original
// bytes (property C14). On the unrepaired tree the header carries no checksum the reader checks (the CRC
// slot after the header bytes is left zero, which the reader takes as "no checksum"; the HeaderChecksum field
// inside the record is never verified), so the reader reports NoCompression and hands out the snappy-framed
// bytes as if they were the state machine's snapshot -- without any error.

import (
	"bytes"
	"io"
	"testing"

	"github.com/lni/dragonboat/v4/internal/utils/dio"
	"github.com/lni/dragonboat/v4/internal/vfs"
	pb "github.com/lni/dragonboat/v4/raftpb"
)

func readAllPayloadC14(t *testing.T, fp string, fs vfs.IFS) (out []byte, ct pb.CompressionType, failed bool) {
	defer func() {
		if r := recover(); r != nil {
			failed = true
		}
	}()
	r, header, err := NewSnapshotReader(fp, fs)
	if err != nil {
		return nil, 0, true
	}
	defer func() {
		if err := r.Close(); err != nil {
			failed = true
		}
	}()
	// what snapshotter.Load does: the decompressor is chosen by the header
	dr := dio.NewDecompressor(ToDioType(header.CompressionType), r)
	data, err := io.ReadAll(dr)
	if err != nil {
		return nil, header.CompressionType, true
	}
	return data, header.CompressionType, false
}

func TestFindingC14HeaderBitFlip(t *testing.T) {
	fs := vfs.NewMemFS()
	fp := "c14-finding.gbsnap"
	payload := bytes.Repeat([]byte("dragonboat-snapshot-payload-"), 4096)
	w, err := NewSnapshotWriter(fp, pb.Snappy, fs)
	if err != nil {
		t.Fatal(err)
	}
	cw := dio.NewCompressor(dio.Snappy, w)
	if _, err := cw.Write(payload); err != nil {
		t.Fatal(err)
	}
	if err := cw.Close(); err != nil {
		t.Fatal(err)
	}
	got, ct, failed := readAllPayloadC14(t, fp, fs)
	if failed || ct != pb.Snappy || !bytes.Equal(got, payload) {
		t.Fatalf("baseline read back failed: failed=%v ct=%v", failed, ct)
	}
	// every single-bit flip of the 1KB header
	f, err := fs.Open(fp)
	if err != nil {
		t.Fatal(err)
	}
	img, err := io.ReadAll(f)
	if err != nil {
		t.Fatal(err)
	}
	f.Close()
	flipped := 0
	for bit := 0; bit < int(HeaderSize)*8; bit++ {
		off := bit / 8
		mut := append([]byte(nil), img...)
		mut[off] ^= 1 << uint(bit%8)
		mf, err := fs.Create(fp + ".flip")
		if err != nil {
			t.Fatal(err)
		}
		if _, err := mf.Write(mut); err != nil {
			t.Fatal(err)
		}
		mf.Close()
		got, ct, failed := readAllPayloadC14(t, fp+".flip", fs)
		if failed {
			continue
		}
		if !bytes.Equal(got, payload) {
			flipped++
			t.Errorf("bit %d of header byte %d flipped: read succeeded (compression type reported %v) and returned %d altered bytes instead of the %d original ones", bit%8, off, ct, len(got), len(payload))
		}
	}
	if flipped == 0 {
		t.Logf("every single-bit flip of the header was detected or harmless")
	}
}
