#!/usr/bin/env python3
# regenerates /verif/MANIFEST.json from the table below
import json
props=[json.loads(l) for l in open('/verif/properties.jsonl')]
CLAIMED={
 'C19':("all query/mutation functions of the two-tier raft log (inMemory, entryLog, LogReader) verified against an abstract view; unbounded proof per function","ILogDB behaviour behind raft.ILogDB is an assumed contract (LogReader is verified against the same clauses); Peer-level call-protocol preconditions assumed; one conjunct of entryLog.getEntries (Term of returned entries) is a free (assumed) postcondition"),
 'C05':("session dedup state machine: at-most-once Update per (session, series), cached result returned, acknowledged => ignored, unknown session => rejected and SM untouched; unbounded proof","goutils LRU cache behind lrusession is an assumed contract (ghost table); JSON (de)serialisation of sessions across snapshots not covered; GetPayload trusted pure"),
 'C07':("every accept/reject rule of the statement is a postcondition of membership.handleConfigChange; rejected => unchanged; disjointness invariant preserved; unbounded proof","addressEqual is an uninterpreted relation; raft-side single-in-flight rule and cross-replica agreement (C02/C03) not covered by this check"),
 'C03':("one vote per term (two-state postconditions of every function that writes term/vote), election restriction (upToDate), leadership only from a counted quorum of distinct voters (counting proved for arbitrary map iteration order), hard state handed out for persistence whenever it changed; unbounded per-function proofs","cross-replica election-safety / leader-completeness theorems are assumed over these local obligations (Raft proof); quorum intersection; counting axioms cnt2 trusted; becomeLeader's heavy callees (appendEntries, preLeaderPromotionHandleConfigChange, broadcastReplicateMessage) have assumed contracts; frames of message-sending loops not verified (noframe)"),
 'C18':("quorum arithmetic, role guards of every become* transition, voting members = remotes ∪ witnesses, non-voting vote responses dropped, witnesses never get reads served; unbounded per-function proofs","handler-table nil slots, witness payload stripping and node.go API guards are not under contract yet; schedule-dependent interplay with in-flight membership application"),
 'C06':("ReadIndex bookkeeping: admission only with a committed entry of the current term and with index = commit index at admission; release only after quorum distinct confirmations incl. self; single-voter shortcut only when quorum is 1; readIndex dropped on every reset; unbounded per-function proofs","that a quorum-confirmed leader's commit index dominates earlier acknowledged writes (Raft thesis 6.4) is assumed; request.go (reader released only when applied >= index) not yet under contract; broadcastHeartbeatMessageWithHint assumed"),
 'C02':("local obligations: term/matchTerm/getConflictIndex/tryAppend/append (log matching, conflict truncation never at or below commit), commit only of entries whose term matches (entryLog.tryCommit), contiguous in-order hand-out of committed entries, setApplied advances by exactly one; unbounded per-function proofs","the cross-replica state-machine-safety theorem is assumed over these local obligations; raft.tryCommit's quorum-th largest match (sorting) and handleReplicateMessage are not yet under contract"),
 'C13':("hand-written Entry codec: exact encoded size (Size == marshalTo's return value == spec function), no buffer overrun in marshalTo (every index/slice obligation), Size <= SizeUpperLimit; protobuf varint helpers; State Size/MarshalTo/SizeUpperLimit; Update.SizeUpperLimit covers the hard state's upper limit; Int mode with exact machine arithmetic","byte-level round trip (decode(encode(x)) == x) is NOT decided (would need the bit-vector mode); gogo-generated map-bearing codecs, snappy, transport frame checks are not under contract; Update.MarshalTo's aggregate bound not decided"),
 'C14':("BlockWriter.Write: never writes the caller's buffer (frame), consumes the whole input, block bookkeeping invariant (a block is emitted exactly at blockSize payload bytes); unbounded","hash/io interfaces and the block callback have assumed contracts; block reader, stream validator, header and shrink logic are not under contract; CRC-32 detection power assumed"),
 'C15':("sender: splitBySnapshotFile produces ceil(size/C) chunks with consecutive ids whose sizes are C except the last and sum to the file size; receiver: Chunk.record accepts only chunk 0 or the next expected chunk from the sender that started the stream, any other chunk leaves the tracked state unchanged; unbounded","validator, file-system effects, finalisation order (addLocked) and path handling are not under contract; chunkKey is an uninterpreted function of (shard, replica, index)"),
}
NA={
 'C01':"linearizability is a predicate over concurrent client histories under fault schedules; no per-function contract expresses it (its mechanisms are decided under C06, C12, C02, C11)",
 'C17':"liveness under fair schedules; contract-based deductive verification here is partial-correctness only",
}
man={
 "version":1,
 "setup_cmd":"cd /verif/engine && GOFLAGS=-mod=vendor GOPROXY=off GOSUMDB=off GOTOOLCHAIN=local go build -o /verif/bin/govc ./cmd/govc",
 "hooks":{"guard":"verif","enable":"comment-only contract files */zz_contracts_verif.go carrying //go:build verif; govc reads them directly, no code is compiled in",
  "baseline_off_cmd":json.load(open('/root/.vp/BASELINE.json'))['cmd'],
  "source_commits":[],"add_only":True},
 "engines":[{"name":"govc","path":"/verif/engine","serves_properties":sorted(CLAIMED),"kind_free_text":"contract-based deductive verifier for Go: VC generation over go/ssa, discharged by z3 4.8.12 / z3 5.1.0 / cvc5 1.0.3"}],
 "checks":[],
 "not_applicable":[],
 "notes":"see DESIGN.md; every check is ./check <ID>; exit 0 = all obligations discharged, exit 1 = VIOLATION lines, exit 3 = undecided (contract out of date / unsupported construct)"
}
import subprocess
try:
    man['hooks']['source_commits']=subprocess.run(['git','-C','/repo','log','--format=%H','5b9ce40..HEAD'],capture_output=True,text=True).stdout.split()
except Exception: pass
for p in props:
    i=p['id']
    if i in CLAIMED:
        man['checks'].append({
          "property_id":i,
          "quick_cmd":"./check %s --tier quick"%i,
          "thorough_cmd":"./check %s --tier thorough"%i,
          "evidence_file":"/verif/evidence/%s.json"%i,
          "replay_cmd_template":"cat {path}",
          "engine":"govc",
          "level_claimed":{"category":"proof","text":CLAIMED[i][0],"design_ref":"DESIGN.md §3 "+i},
          "level_note":"trusted: go/ssa, the govc translation, the SMT solvers; "+CLAIMED[i][1],
          "technique":"contract-based deductive verification: pre/post/frame/loop-invariant VCs generated from go/ssa of the real functions, discharged by SMT (z3, cvc5)"})
    else:
        man['not_applicable'].append({"property_id":i,"reason":NA.get(i,"not claimed: no contracts within reach have been built for this property yet")})
json.dump(man,open('/verif/MANIFEST.json','w'),indent=1)
print(len(man['checks']),'claimed')
