#!/usr/bin/env python3
# regenerates /verif/MANIFEST.json from the table below
import json
props=[json.loads(l) for l in open('/verif/properties.jsonl')]
CLAIMED={
 'C19':("all query/mutation functions of the two-tier raft log (inMemory, entryLog, LogReader) verified against an abstract view; unbounded proof per function","ILogDB behaviour behind raft.ILogDB is an assumed contract (LogReader is verified against the same clauses); Peer-level call-protocol preconditions assumed; one conjunct of entryLog.getEntries (Term of returned entries) is a free (assumed) postcondition"),
 'C05':("session dedup state machine: at-most-once Update per (session, series), cached result returned, acknowledged => ignored, unknown session => rejected and SM untouched; unbounded proof","goutils LRU cache behind lrusession is an assumed contract (ghost table); JSON (de)serialisation of sessions across snapshots not covered; GetPayload trusted pure"),
 'C07':("every accept/reject rule of the statement is a postcondition of membership.handleConfigChange; rejected => unchanged; disjointness invariant preserved; unbounded proof","addressEqual is an uninterpreted relation; raft-side single-in-flight rule and cross-replica agreement (C02/C03) not covered by this check"),
}
NA={
 'C01':"linearizability is a predicate over concurrent client histories under fault schedules; no per-function contract expresses it (its mechanisms are decided under C06, C12, C02, C11)",
 'C17':"liveness under fair schedules; contract-based deductive verification here is partial-correctness only",
}
man={
 "version":1,
 "setup_cmd":"cd /verif/engine && GOFLAGS=-mod=vendor GOPROXY=off GOSUMDB=off GOTOOLCHAIN=local go build -o /verif/bin/govc ./cmd/govc",
 "hooks":{"guard":"verif","enable":"comment-only contract files */zz_contracts_verif.go carrying //go:build verif; govc reads them directly, no code is compiled in",
  "baseline_off_cmd":json.load(open('/root/.vp/BASELINE.json'))['cmd'],
  "source_commits":[],"add_only":True},
 "engines":[{"name":"govc","path":"/verif/engine","serves_properties":sorted(CLAIMED),"kind_free_text":"contract-based deductive verifier for Go: VC generation over go/ssa, discharged by z3 4.8.12 / z3 5.1.0 / cvc5 1.0.3"}],
 "checks":[],
 "not_applicable":[],
 "notes":"see DESIGN.md; every check is ./check <ID>; exit 0 = all obligations discharged, exit 1 = VIOLATION lines, exit 3 = undecided (contract out of date / unsupported construct)"
}
import subprocess
try:
    man['hooks']['source_commits']=subprocess.run(['git','-C','/repo','log','--format=%H','5b9ce40..HEAD'],capture_output=True,text=True).stdout.split()
except Exception: pass
for p in props:
    i=p['id']
    if i in CLAIMED:
        man['checks'].append({
          "property_id":i,
          "quick_cmd":"./check %s --tier quick"%i,
          "thorough_cmd":"./check %s --tier thorough"%i,
          "evidence_file":"/verif/evidence/%s.json"%i,
          "replay_cmd_template":"cat {path}",
          "engine":"govc",
          "level_claimed":{"category":"proof","text":CLAIMED[i][0],"design_ref":"DESIGN.md §3 "+i},
          "level_note":"trusted: go/ssa, the govc translation, the SMT solvers; "+CLAIMED[i][1],
          "technique":"contract-based deductive verification: pre/post/frame/loop-invariant VCs generated from go/ssa of the real functions, discharged by SMT (z3, cvc5)"})
    else:
        man['not_applicable'].append({"property_id":i,"reason":NA.get(i,"not claimed: no contracts within reach have been built for this property yet")})
json.dump(man,open('/verif/MANIFEST.json','w'),indent=1)
print(len(man['checks']),'claimed')
