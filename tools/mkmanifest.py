#!/usr/bin/env python3
# regenerates /verif/MANIFEST.json from the table below
import json
props=[json.loads(l) for l in open('/verif/properties.jsonl')]
CLAIMED={
 'C19':("all query/mutation functions of the two-tier raft log (inMemory, entryLog, LogReader) verified against an abstract view; unbounded proof per function","ILogDB behaviour behind raft.ILogDB is an assumed contract (LogReader is verified against the same clauses); Peer-level call-protocol preconditions assumed; one conjunct of entryLog.getEntries (Term of returned entries) is a free (assumed) postcondition"),
 'C05':("session dedup state machine: at-most-once Update per (session, series), cached result returned, acknowledged => ignored, unknown session => rejected and SM untouched; unbounded proof","goutils LRU cache behind lrusession is an assumed contract (ghost table); JSON (de)serialisation of sessions across snapshots not covered; GetPayload trusted pure"),
 'C07':("every accept/reject rule of the statement is a postcondition of membership.handleConfigChange; rejected => unchanged; disjointness invariant preserved; unbounded proof","addressEqual is an uninterpreted relation; raft-side single-in-flight rule and cross-replica agreement (C02/C03) not covered by this check"),
 'C03':("one vote per term (two-state postconditions of every function that writes term/vote), election restriction (upToDate), leadership only from a counted quorum of distinct voters (counting proved for arbitrary map iteration order), hard state handed out for persistence whenever it changed; unbounded per-function proofs","cross-replica election-safety / leader-completeness theorems are assumed over these local obligations (Raft proof); quorum intersection; counting axioms cnt2 trusted; becomeLeader's heavy callees (appendEntries, preLeaderPromotionHandleConfigChange, broadcastReplicateMessage) have assumed contracts; frames of message-sending loops not verified (noframe)"),
 'C18':("quorum arithmetic, role guards of every become* transition, voting members = remotes ∪ witnesses, non-voting vote responses dropped, witnesses never get reads served; unbounded per-function proofs","handler-table nil slots, witness payload stripping and node.go API guards are not under contract yet; schedule-dependent interplay with in-flight membership application"),
 'C06':("ReadIndex bookkeeping: admission only with a committed entry of the current term and with index = commit index at admission; release only after quorum distinct confirmations incl. self; single-voter shortcut only when quorum is 1; readIndex dropped on every reset; unbounded per-function proofs","that a quorum-confirmed leader's commit index dominates earlier acknowledged writes (Raft thesis 6.4) is assumed; request.go (reader released only when applied >= index) not yet under contract; broadcastHeartbeatMessageWithHint assumed"),
 'C02':("local obligations: term/matchTerm/getConflictIndex/tryAppend/append (log matching, conflict truncation never at or below commit), commit only of entries whose term matches (entryLog.tryCommit), contiguous in-order hand-out of committed entries, setApplied advances by exactly one; unbounded per-function proofs","the cross-replica state-machine-safety theorem is assumed over these local obligations; raft.tryCommit's quorum-th largest match (sorting) and handleReplicateMessage are not yet under contract"),
 'C13':("hand-written Entry codec: exact encoded size (Size == marshalTo's return value == spec function), no buffer overrun in marshalTo (every index/slice obligation), Size <= SizeUpperLimit; protobuf varint helpers; State Size/MarshalTo/SizeUpperLimit; Update.SizeUpperLimit covers the hard state's upper limit; Int mode with exact machine arithmetic","byte-level round trip (decode(encode(x)) == x) is NOT decided (would need the bit-vector mode); gogo-generated map-bearing codecs, snappy, transport frame checks are not under contract; Update.MarshalTo's aggregate bound not decided"),
 'C14':("BlockWriter.Write: never writes the caller's buffer (frame), consumes the whole input, block bookkeeping invariant (a block is emitted exactly at blockSize payload bytes); unbounded","hash/io interfaces and the block callback have assumed contracts; block reader, stream validator, header and shrink logic are not under contract; CRC-32 detection power assumed"),
 'C15':("sender: splitBySnapshotFile produces ceil(size/C) chunks with consecutive ids whose sizes are C except the last and sum to the file size; receiver: Chunk.record accepts only chunk 0 or the next expected chunk from the sender that started the stream, any other chunk leaves the tracked state unchanged; unbounded","validator, file-system effects, finalisation order (addLocked) and path handling are not under contract; chunkKey is an uninterpreted function of (shard, replica, index)"),
 'C04':("ordering/typestate obligations: tan multiplexed SaveRaftState returns success only after every record needing durability was fsynced (ghost typestate through a loop invariant); the sharded store skips a hard-state write only if term, vote and commit are all unchanged; the Peer hands out the hard state for persistence whenever any of term/vote/commit changed; tan record writer propagates write errors","persist-before-send ordering in engine.processSteps/node.go is NOT under contract (root-package step loop); db.write/db.sync/getDB have assumed contracts; crash semantics of the file system and Pebble WAL assumed"),
 'C08':("recovering from a snapshot: applyOnDisk sets the on-disk index and (for imported snapshots on initial recovery) the already-applied watermark to the snapshot's; restoreRemotes rebuilds all three member maps from the snapshot (witness set exactly the snapshot's); LogReader.Compact never advances the marker beyond the last index and keeps the term at the marker; entryLog.restore","two-run equivalence is a hyper-property (assumed over these obligations); user SM Save/Recover inverse assumed; snapshot meta capture (getSSMeta) trusted; node.go compaction order not under contract"),
 'C09':("LogReader (first/last/term/entries/SetRange/Append/Compact) against its abstract range view; tan index: merge/update of index entries and index.update (a write at start truncates everything at and above it, sortedness preserved, log ends at the new range); hard-state cache","Pebble/ordered KV semantics assumed (IterateEntries has an assumed contract); batched/plain entry iterators, tan node states/compaction, composition over arbitrary operation sequences are not under contract"),
 'C10':("error flow: a storage error reported by the KV store during saveRaftState/saveSnapshots/saveSnapshot makes the save fail (ghost flag through loop invariants) — this obligation FOUND a genuine defect (return nil on error), now fixed; tan record writer never returns success with a recorded write error","crash-point atomicity of Pebble batches and tan record framing/manifest are assumed; listSnapshots and in-memory write-batch helpers have assumed contracts"),
 'C11':("apply discipline: setApplied advances the index by exactly one; update/registerSession/unregisterSession/noop each advance it exactly once to the entry's index and call the user Update at most once; task queue Get/Add/resize never lose, duplicate or reorder tasks; the user SaveSnapshot of a plain SM runs under the apply lock (lockset typestate: Save -> save/concurrentSave -> doSave)","the offload/loaded hand-off between workers, mutex semantics and NativeSM's own locking are assumed; Lookup paths not under contract"),
 'C12':("request objects: a recycled RequestState never carries a stale Completed/Committed result; notify/committed send only into an empty capacity-1 channel; a Committed notification is delivered only to the pending config-change request whose key matches","sequential reasoning only (methods atomic under their mutex assumed); proposal/read-index/snapshot tables, gc/expiry and Release/sync.Pool races are not under contract"),
 'C16':("publish protocol order as ghost typestate: the flag file is written into the temporary directory before the rename to the final name (FinalizeSnapshot); the recorded snapshot file is replaced only by an atomic rename, never unlinked first (ReplaceSnapshot); saveSnapshots propagates storage errors","that the protocol suffices under the file-system crash model is assumed; processOrphans decision table, snapshotter.Commit order and node.go clean-up are not under contract"),
 'C20':("the rewritten snapshot record: membership is exactly the given member list, every previous voter/non-voting/witness not listed is recorded as removed, previous removals kept, NonVotings/Witnesses empty, index/term/type copied, Imported set (map loops proved for arbitrary iteration order)","member-list validation (checkMembers/checkImportSettings), ordering of validation before mutation, log-store import batch and end-to-end restart behaviour are not under contract"),
}
NA={
 'C01':"linearizability is a predicate over concurrent client histories under fault schedules; no per-function contract expresses it (its mechanisms are decided under C06, C12, C02, C11)",
 'C17':"liveness under fair schedules; contract-based deductive verification here is partial-correctness only",
}
man={
 "version":1,
 "setup_cmd":"cd /verif/engine && GOFLAGS=-mod=vendor GOPROXY=off GOSUMDB=off GOTOOLCHAIN=local go build -o /verif/bin/govc ./cmd/govc",
 "hooks":{"guard":"verif","enable":"comment-only contract files */zz_contracts_verif.go carrying //go:build verif; govc reads them directly, no code is compiled in",
  "baseline_off_cmd":json.load(open('/root/.vp/BASELINE.json'))['cmd'],
  "source_commits":[],"add_only":True},
 "engines":[{"name":"govc","path":"/verif/engine","serves_properties":sorted(CLAIMED),"kind_free_text":"contract-based deductive verifier for Go: VC generation over go/ssa, discharged by z3 4.8.12 / z3 5.1.0 / cvc5 1.0.3"}],
 "checks":[],
 "not_applicable":[],
 "notes":"see DESIGN.md; every check is ./check <ID>; exit 0 = all obligations discharged, exit 1 = VIOLATION lines, exit 3 = undecided (contract out of date / unsupported construct)"
}
import subprocess
try:
    man['hooks']['source_commits']=subprocess.run(['git','-C','/repo','log','--format=%H','5b9ce40..HEAD'],capture_output=True,text=True).stdout.split()
except Exception: pass
for p in props:
    i=p['id']
    if i in CLAIMED:
        man['checks'].append({
          "property_id":i,
          "quick_cmd":"./check %s --tier quick"%i,
          "thorough_cmd":"./check %s --tier thorough"%i,
          "evidence_file":"/verif/evidence/%s.json"%i,
          "replay_cmd_template":"cat {path}",
          "engine":"govc",
          "level_claimed":{"category":"proof","text":CLAIMED[i][0],"design_ref":"DESIGN.md §3 "+i},
          "level_note":"trusted: go/ssa, the govc translation, the SMT solvers; "+CLAIMED[i][1],
          "technique":"contract-based deductive verification: pre/post/frame/loop-invariant VCs generated from go/ssa of the real functions, discharged by SMT (z3, cvc5)"})
    else:
        man['not_applicable'].append({"property_id":i,"reason":NA.get(i,"not claimed: no contracts within reach have been built for this property yet")})
json.dump(man,open('/verif/MANIFEST.json','w'),indent=1)
print(len(man['checks']),'claimed')
