#!/bin/bash
# usage: intake.sh <agent-id e.g. C04r2> <n> <pkgdir> <demo pattern> <seed-id e.g. C04-s3> <prop> [existing-tests -run pattern]
# confirms a sub-agent's change in its scratch worktree, stores it under /verif/seeded, runs the property's check on it
a=$1; n=$2; pkg=$3; pat=$4; sid=$5; prop=$6; exist=${7:-}
out=/tmp/wt-$a/_out
res=$(/verif/tools/confirm_seed.sh /tmp/wt-$a $out/change$n.diff $out/demo${n}_test.go $pkg "$pat" "$exist" 2>&1)
echo "$res" | tail -9
ok1=$(echo "$res" | sed -n '/WITHOUT change/,/WITH change (expect FAIL)/p' | grep -c '^ok')
fail2=$(echo "$res" | sed -n '/WITH change (expect FAIL)/,/existing package tests/p' | grep -c '^FAIL')
ok3=$(echo "$res" | sed -n '/existing package tests/,$p' | grep -c '^ok')
if [ "$ok1" -lt 1 ] || [ "$fail2" -lt 1 ] || [ "$ok3" -lt 1 ]; then echo "NOT CONFIRMED ($ok1 $fail2 $ok3)"; exit 1; fi
det=$(/verif/tools/seedtest.sh $prop $out/change$n.diff 2>&1 | grep -E '^VIOLATION' | head -1 | sed -E 's/.*obligation=([^ ]+).*/\1/')
if [ -n "$det" ]; then d="yes: $prop $det"; else d="no"; fi
needs=$(grep -i -m1 -A2 "need" $out/notes.md | tr '\n' ' ' | cut -c1-300)
python3 /verif/tools/saveseed.py $sid $prop $out $n $pkg "$pat" "$d" "$needs"
echo "DETECTED: $d"
