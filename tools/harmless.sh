#!/bin/bash
# usage: harmless.sh <diff>  -- applies a behaviour-preserving patch to a scratch copy of /repo and runs, for every
# claimed property, the contracts of every function the patch touches; expected: no VIOLATION, no UNDECIDED
p=$(realpath "$1"); shift
d=$(mktemp -d /var/tmp/govc-hl-XXXX)
rsync -a --exclude .git --exclude .verif ${HL_BASE:-/repo}/ $d/
patch -p1 -s -d $d -i $p || { echo "PATCH FAILED"; rm -rf $d; exit 2; }
fns=$(grep -E '^(@@|[-+ ])' $p | grep -oE 'func (\([a-zA-Z_]+ \*?[A-Za-z_]+\) )?[A-Za-z_0-9]+\(' | sed -E 's/func (\([a-zA-Z_]+ \*?[A-Za-z_]+\) )?//; s/\($//' | sort -u | tr '\n' '|' | sed 's/|$//')
echo "functions: $fns"
for prop in $(python3 -c "import json; print(' '.join(c['property_id'] for c in json.load(open('/verif/MANIFEST.json'))['checks']))"); do
  ${GOVC:-/verif/bin/govc} check -prop $prop -repo $d -no-evidence -verif $d/.verif -func "(^|[.)])($fns)\$" "$@" 2>&1 | grep -E "^(VIOLATION|UNDECIDED|govc)" | grep -v "no functions under contract" | cut -c1-260
done
rm -rf $d
