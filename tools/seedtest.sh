#!/bin/bash
# usage: seedtest.sh <PROP> <patch.diff>   — apply a seeded change to a scratch copy of /repo's working tree, run the check
# there, remove the copy (nothing is ever applied to /repo itself)
set -u
PROP=$1; PATCH=$(realpath "$2")
d=$(mktemp -d /var/tmp/seedtest-XXXX)
rsync -a --exclude .git /repo/ $d/
if ! patch -p1 -s -d $d -i "$PATCH" >/dev/null 2>&1; then echo "patch does not apply"; rm -rf $d; exit 2; fi
(cd /verif && timeout 1500 ./bin/govc check -prop $PROP -repo $d -no-evidence -verif $d/.verif 2>&1 | grep -E "^VIOLATION|^govc|^UNDEC|^KNOWN" | cut -c1-400)
rm -rf $d
