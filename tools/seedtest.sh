#!/bin/bash
# usage: seedtest.sh <PROP> <patch.diff>   — apply a seeded change to /repo, run the check, undo
set -u
PROP=$1; PATCH=$2
cd /repo || exit 2
if [ -n "$(git status --porcelain)" ]; then echo "REFUSING: /repo has uncommitted changes (commit the contract files first)"; exit 2; fi
if ! git apply --check "$PATCH" 2>/dev/null; then echo "patch does not apply"; exit 2; fi
git apply "$PATCH"
(cd /verif && timeout 900 ./bin/govc check -prop $PROP -no-evidence -verif /var/tmp/seedtest-verif 2>&1 | grep -E "^VIOLATION|^govc|^UNDEC|^KNOWN" | cut -c1-400)
git checkout -- . ; rm -rf /var/tmp/seedtest-verif
