#!/bin/bash
# usage: intake_auto.sh <agent-id e.g. C04r5> <first seed number e.g. 9> ; derives package dir and -run pattern from the
# header comment of each demo file and calls intake.sh for change 1 and change 2
a=$1; n0=$2; prop=${a%%r*}
for n in 1 2; do
  f=/tmp/wt-$a/_out/demo${n}_test.go
  [ -f "$f" ] || { echo "no $f"; continue; }
  line=$(grep -m1 -E "go test .*-run" "$f")
  pat=$(echo "$line" | sed -E "s/.*-run[= ]+'([^']+)'.*/\1/; s/.*-run[= ]+\"([^\"]+)\".*/\1/")
  pkg=$(echo "$line" | grep -oE '\./[A-Za-z0-9_/]*' | tail -1 | sed -E 's#^\./##; s#/$##')
  [ -z "$pkg" ] && pkg=.
  exist=""
  [ "$pkg" = "." ] && exist='TestPending|TestProposal|TestRequest|TestReadIndex|TestSnapshot|TestConfigChange|TestNode|TestEngine|TestQuiesce|TestWorker'
  sid=$prop-s$((n0 + n - 1))
  echo "== $a change $n: pkg=$pkg pat=$pat -> $sid"
  /verif/tools/intake.sh $a $n "$pkg" "$pat" $sid $prop "$exist"
done
