#!/bin/bash
# usage: replaystats.sh <mutant.patch>... ; prints per failing obligation: status + replay verdict
for p in "$@"; do
  prop=$(grep '^# expect:' $p | awk '{print $3}')
  out=$(/verif/tools/trymutant.sh $p $prop 2>&1)
  d=$(echo "$out" | grep '^scratch:' | awk '{print $2}')
  echo "== $(basename $p) [$prop]"
  python3 - "$d" <<'PY'
import json,glob,sys
for f in sorted(glob.glob(sys.argv[1]+'/.verif/replay/*/*.json')):
    d=json.load(open(f))
    print('  %-70s %-8s %s' % (d['obligation'][:70], d['status'], str(d.get('replay_verdict'))[:150]))
PY
  rm -rf "$d"
done
