#!/usr/bin/env python3
"""Regenerates the 'which checks catch which seeded changes' section of DESIGN.md from
seeded/*/meta.json and selftest/mutants/*.patch."""
import json, glob, os, re
V='/verif'
rows=[]
for mf in sorted(glob.glob(V+'/seeded/*/meta.json')):
    m=json.load(open(mf))
    what = m.get('what') or m.get('summary') or ''
    if not what:
        files = re.findall(r'^\+\+\+ b/(\S+)', open(os.path.dirname(mf)+'/patch.diff').read(), re.M)
        what = ', '.join(files) + ' — needs: ' + m.get('needs_to_manifest','')
    rows.append((m['id'], m['property'], what.replace('|','/').replace('\n',' ')[:260], str(m.get('detected_by_check','')).replace('|','/')))
out=[]
out.append('### 7.1 Changes seeded by independent sub-agents (`/verif/seeded/<id>/`)\n')
out.append('Each was produced by a fresh sub-agent that saw only the property text and a scratch worktree, '
           'breaks the property, compiles, passes the existing tests of its package, comes with a demonstration '
           'test, and was confirmed by us in a scratch worktree before being stored.\n')
out.append('| seed | change | detected by the check? |')
out.append('|------|--------|------------------------|')
for r in rows:
    out.append('| %s | %s | %s |' % (r[0], r[2], r[3]))
det=sum(1 for r in rows if r[3].startswith('yes'))
out.append('\n%d of %d detected. The undetected ones touch functions that are not under contract; they are listed '
           'as open coverage gaps, not hidden.\n' % (det, len(rows)))
out.append('### 7.2 Hand-written must-fail mutants (`/verif/selftest/mutants/`)\n')
out.append('| mutant | property | expected failing obligation (prefix) |')
out.append('|--------|----------|--------------------------------------|')
for p in sorted(glob.glob(V+'/selftest/mutants/*.patch')):
    exp=[l for l in open(p).read().split('\n') if l.startswith('# expect:')]
    if not exp: continue
    prop,obl=exp[0].split()[2:4]
    out.append('| %s | %s | `%s` |' % (os.path.basename(p)[:-6], prop, obl))
txt='\n'.join(out)+'\n'
d=open(V+'/DESIGN.md').read()
b='<!-- BEGIN GENERATED: tools/mkdesign_tables.py -->\n'; e='<!-- END GENERATED -->'
i=d.index(b)+len(b); j=d.index(e)
open(V+'/DESIGN.md','w').write(d[:i]+txt+d[j:])
