#!/usr/bin/env python3
# usage: saveseed.py <seed-id> <prop> <wt/_out dir> <n> <pkgdir> <demo-run-pattern> <detected: yes|no> <needs...>
import sys,os,shutil,json
sid,prop,out,n,pkg,pat,det=sys.argv[1:8]
needs=' '.join(sys.argv[8:])
d='/verif/seeded/'+sid
os.makedirs(d,exist_ok=True)
shutil.copy(f'{out}/change{n}.diff',d+'/patch.diff')
shutil.copy(f'{out}/demo{n}_test.go',d+'/demo_test.go')
notes=open(f'{out}/notes.md').read() if os.path.exists(f'{out}/notes.md') else ''
open(d+'/agent_notes.md','w').write(notes)
meta={"id":sid,"property":prop,"patch":"patch.diff","demo":"demo_test.go (copy into %s/ and run: go test -count=1 -run '%s' ./%s/)"%(pkg,pat,pkg),
 "needs_to_manifest":needs,
 "confirmed":{"how":"tools/confirm_seed.sh in a scratch worktree of the pristine commit: demo passes without the change, demo fails with it, the package's existing tests (go test -count=1 ./%s/) pass with it"%pkg,"result":"confirmed"},
 "detected_by_check":det}
json.dump(meta,open(d+'/meta.json','w'),indent=1)
print('saved',d)
