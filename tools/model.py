#!/usr/bin/env python3
# debugging aid: print model values of all scalar symbols (declared and defined) of a dumped query
import re,sys,subprocess
f=sys.argv[1]
solver=sys.argv[2] if len(sys.argv)>2 else 'z3-new'
src=open(f).read()
names=[]
for m in re.finditer(r'\((?:declare|define)-fun (\|[^|]*\||[^ ]+) \(\) (Int|Bool)',src):
    names.append(m.group(1))
extra=sys.argv[3:] 
q=src+"\n(get-value (%s))\n"%(" ".join(names+extra))
open('/tmp/_m.smt2','w').write(q)
out=subprocess.run(["timeout","30",solver,"/tmp/_m.smt2"],capture_output=True,text=True).stdout
print(out)
