#!/bin/bash
# usage: trymutant.sh <patch> <PROP> [govc args...]  -- applies a patch to a scratch copy of /repo and runs govc on it
set -e
p=$(realpath "$1"); prop=$2; shift 2
d=$(mktemp -d /var/tmp/govc-try-XXXX)
rsync -a --exclude .git /repo/ $d/
patch -p1 -s -d $d -i $p
/verif/bin/govc check -prop $prop -repo $d -no-evidence -verif $d/.verif "$@" || true
echo "scratch: $d (replay files under $d/.verif/replay)"
