#!/bin/bash
# usage: confirm_seed.sh <worktree> <change.diff> <demo_test.go> <pkgdir (relative)> <demo run regexp>
# Confirms: demo passes without the change, fails with it; the package's own tests pass with it.
export GOFLAGS=-mod=mod GOPROXY=off GOSUMDB=off GOTOOLCHAIN=local
WT=$1; DIFF=$2; DEMO=$3; PKG=$4; PAT=$5; EXIST=${6:-}
cd $WT || exit 2
git checkout -q -- . ; rm -f $PKG/zz_seed_demo_test.go
cp $DEMO $PKG/zz_seed_demo_test.go
echo "--- demo WITHOUT change (expect ok)"
go test -count=1 -vet=off -timeout 300s -run "$PAT" ./$PKG/ 2>&1 | tail -3
git apply $DIFF || { echo "APPLY FAILED"; exit 2; }
echo "--- demo WITH change (expect FAIL)"
go test -count=1 -vet=off -timeout 300s -run "$PAT" ./$PKG/ 2>&1 | tail -3
rm -f $PKG/zz_seed_demo_test.go
echo "--- existing package tests WITH change (expect ok)"
if [ -n "$EXIST" ]; then go test -count=1 -vet=off -timeout 1200s -run "$EXIST" ./$PKG/ 2>&1 | tail -3; else go test -count=1 -vet=off -timeout 1200s ./$PKG/ 2>&1 | tail -3; fi
git checkout -q -- .
