#!/usr/bin/env python3
"""usage: mkmut.py <name> <prop> <obligation-prefix> <file> <old> <new>
creates selftest/mutants/<name>.patch from an exact, unique string replacement in /repo/<file>"""
import sys, os, subprocess, tempfile, shutil
name, prop, obl, file, old, new = sys.argv[1:7]
src = open('/repo/' + file).read()
if src.count(old) != 1:
    sys.exit('old text occurs %d times in %s' % (src.count(old), file))
d = tempfile.mkdtemp(prefix='mk.', dir='/var/tmp')
for side, text in (('a', src), ('b', src.replace(old, new))):
    os.makedirs(os.path.join(d, side, os.path.dirname(file)), exist_ok=True)
    open(os.path.join(d, side, file), 'w').write(text)
r = subprocess.run(['diff', '-u', 'a/' + file, 'b/' + file], cwd=d, capture_output=True, text=True)
open('/verif/selftest/mutants/%s.patch' % name, 'w').write('# mutant: %s\n# expect: %s %s\n%s' % (name, prop, obl, r.stdout))
shutil.rmtree(d)
print('wrote', name)
