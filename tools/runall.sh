#!/bin/bash
# runs every claimed property's quick check and prints one summary line each
cd /verif
for id in $(python3 -c "import json; print(' '.join(c['property_id'] for c in json.load(open('MANIFEST.json'))['checks']))"); do
  out=$(./check $id 2>&1); rc=$?
  echo "$id rc=$rc $(echo "$out" | grep '^govc:' | sed 's/govc: property=[A-Z0-9]* //')"
  echo "$out" | grep -E '^(VIOLATION|UNDECIDED|KNOWN)' | cut -c1-220
done
