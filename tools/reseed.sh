#!/bin/bash
# usage: reseed.sh <seed-id>... ; re-runs the property's check on a stored seed (scratch copy) and updates meta.json's detected_by_check
for sid in "$@"; do
  prop=${sid%%-*}
  det=$(/verif/tools/seedtest.sh $prop /verif/seeded/$sid/patch.diff 2>&1 | grep -E '^VIOLATION' | head -1 | sed -E 's/.*obligation=([^ ]+).*/\1/')
  if [ -n "$det" ]; then d="yes: $prop $det"; else d="no"; fi
  python3 - "$sid" "$d" <<'PY'
import json,sys
p='/verif/seeded/%s/meta.json'%sys.argv[1]
m=json.load(open(p)); m['detected_by_check']=sys.argv[2]; json.dump(m,open(p,'w'),indent=1)
PY
  echo "$sid: $d"
done
