#!/bin/bash
# usage: mkagentwt.sh <ID> ; creates /tmp/wt-<ID>: a scratch worktree of /repo HEAD without the contract files,
# plus /tmp/prop-<ID>.txt (property text only) and /tmp/agent-prompt-<ID>.txt
set -e
id=$1; prop=${id%%[rh]*}
wt=/tmp/wt-$id
git -C /repo worktree remove --force $wt 2>/dev/null || true
rm -rf $wt
git -C /repo worktree add -q --detach $wt HEAD
cd $wt
git rm -q $(git ls-files | grep zz_contracts_verif.go)
git -c user.name=scratch -c user.email=s@x commit -q -m "scratch: worktree without verification hooks"
python3 - "$prop" "$id" <<'PY'
import json,sys
prop,id=sys.argv[1],sys.argv[2]
for l in open('/verif/properties.jsonl'):
    d=json.loads(l)
    if d['id']==prop:
        with open('/tmp/prop-%s.txt'%id,'w') as f:
            f.write("Property: %s\n\nStatement:\n%s\n\nHolds for: %s\n\nRelevant source files: %s\n\nMechanisms (where in the code):\n" % (d['title'], d['statement'], d['quantifier']['text'], ', '.join(d['anchors']['files'])))
            for m in d['anchors'].get('mechanism',[]):
                f.write(" - %s (%s)\n" % (m['name'], m['where']))
PY
sed "s/__ID__/$id/g" /verif/tools/agent-prompt.txt > /tmp/agent-prompt-$id.txt
echo "$wt ready"
