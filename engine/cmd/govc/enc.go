package main

// The VC generator: symbolic encoding of go/ssa function bodies into SMT definitions,
// with obligations (assertions) collected per function.

import (
	"sync"
	"fmt"
	"go/constant"
	"go/token"
	"go/types"
	"sort"
	"strings"

	"golang.org/x/tools/go/ssa"
)

// State: reach is the exact path condition (branch conditions only); assumptions are kept
// as global guarded facts (e.facts) so that hypotheses can be sliced per obligation.
type State struct {
	reach string
	heap  map[string]string
	alloc string
}

type factRec struct {
	guard string
	f     string
}

func (s *State) clone() *State {
	n := &State{reach: s.reach, alloc: s.alloc}
	n.heap = make(map[string]string, len(s.heap))
	for k, v := range s.heap {
		n.heap[k] = v
	}
	return n
}

func (s *State) dead() bool { return s.reach == "false" }

type Obligation struct {
	Name   string
	Kind   string
	Hyp    string
	Goal   string
	Desc   string
	Props  []string
	Fn     string
	Result SolveResult
	Query  string
	// for vacuity (expect sat)
	ExpectSat bool
	replayConfirmed bool
	replay *replayResult
	Clause *SExpr
	NFacts int
	Sliced bool
}

type Frame struct {
	fn       *ssa.Function
	vals     map[ssa.Value]*Val
	entry    *State
	defers   []*deferred
	depth    int
	top      bool
	contract *FuncContract
	loops    map[*ssa.BasicBlock]*loopInfo
	phiOver  map[ssa.Value]*Val
	iters    map[ssa.Value]*iterInfo
	parent   *Frame
	callName string
}

type deferred struct {
	guard string
	instr *ssa.Defer
	args  []*Val
	fnv   *Val
}

type iterInfo struct {
	mapVal  *Val
	mapType *types.Map
	id      string // iterator id
	comp, compSort string // visited-set component of this iterator
	isStr   bool
}

type loopInfo struct {
	frameRanges map[string][][2]string // explicit loop frame (loop k modifies): comp -> ranges
	hdrHeap     map[string]string      // heap versions at the loop head (after havoc)
	hdrAlloc    string
	header *ssa.BasicBlock
	body   map[*ssa.BasicBlock]bool
	ord    int
	back   []*ssa.BasicBlock
}

// fltRec: what is known about an (otherwise opaque) floating-point value: it is float64(a) ("int"), the quotient
// float64(a)/float64(b) ("quo") or math.Ceil of such a quotient ("ceilquo"); a and b are integer terms
type fltRec struct {
	kind string
	a, b string
}

type Enc struct {
	flt map[string]fltRec
	curClause *SExpr
	callLog []callRec // interface-method calls answered by a contract (for replay stubs)
	retHook func(st *State, res *Val)
	outerSyms map[string]string
	privMemo map[*ssa.Alloc]bool
	w        *World
	s        *Script
	obls     []*Obligation
	compSort map[string]string
	fnName   string
	fnKey    string
	props    []string
	notes    []string // unsupported / assumptions encountered
	notesSet map[string]bool
	strIDs   map[string]int
	typeIDs  map[string]int
	oblCount map[string]int
	top      *Frame
	nobounds bool
	forkjoin bool
	inlineStack []*ssa.Function
	callOrd  map[string]int
	lastFacts []string
	facts    []factRec
	recState *State
	rec      map[string]bool
	ghostComps map[string]bool
	freshMemo  map[*ssa.Function]map[string]bool
	replayMu   sync.Mutex
}

// cnt2(S, V) = |{k in S : V[k]}| for finite S: built-in counting axioms (trusted base)
func (e *Enc) useCnt2() {
	for _, a := range e.s.Axioms {
		if strings.HasPrefix(a, "(declare-fun cnt2 ") {
			return
		}
	}
	e.s.Axioms = append(e.s.Axioms,
		"(declare-fun cnt2 ((Array Int Bool) (Array Int Bool)) Int)",
		"(assert (forall ((v (Array Int Bool))) (! (= (cnt2 ((as const (Array Int Bool)) false) v) 0) :pattern ((cnt2 ((as const (Array Int Bool)) false) v)))))",
		"(assert (forall ((s (Array Int Bool)) (v (Array Int Bool)) (k Int)) (! (=> (not (select s k)) (= (cnt2 (store s k true) v) (+ (cnt2 s v) (ite (select v k) 1 0)))) :pattern ((cnt2 (store s k true) v)))))",
		"(assert (forall ((s (Array Int Bool)) (v (Array Int Bool)) (k Int) (b Bool)) (! (=> (not (select s k)) (= (cnt2 s (store v k b)) (cnt2 s v))) :pattern ((cnt2 s (store v k b))))))",
		"(assert (forall ((s (Array Int Bool)) (v (Array Int Bool)) (k Int) (b Bool)) (! (=> (not (select s k)) (= (cnt2 (store s k true) (store v k b)) (+ (cnt2 s v) (ite b 1 0)))) :pattern ((cnt2 (store s k true) (store v k b))))))",
		"(assert (forall ((s (Array Int Bool)) (v (Array Int Bool))) (! (>= (cnt2 s v) 0) :pattern ((cnt2 s v)))))",
		// extensionality (contrapositive, with a witness function)
		"(declare-fun cnt2diff ((Array Int Bool) (Array Int Bool)) Int)",
		"(assert (forall ((s (Array Int Bool)) (t (Array Int Bool)) (v (Array Int Bool))) (! (or (= (cnt2 s v) (cnt2 t v)) (not (= (select s (cnt2diff s t)) (select t (cnt2diff s t))))) :pattern ((cnt2 s v) (cnt2 t v)))))",
	)
	e.note("built-in counting axioms for cnt2 (finite-set cardinality restricted by a predicate) are part of the trusted base")
}

// sum2(S, W) = sum of W[k] over the keys k of the finite set S: built-in axioms (trusted base), the
// weighted analogue of cnt2
func (e *Enc) useSum2() {
	for _, a := range e.s.Axioms {
		if strings.HasPrefix(a, "(declare-fun sum2 ") {
			return
		}
	}
	e.s.Axioms = append(e.s.Axioms,
		"(declare-fun sum2 ((Array Int Bool) (Array Int Int)) Int)",
		"(assert (forall ((w (Array Int Int))) (! (= (sum2 ((as const (Array Int Bool)) false) w) 0) :pattern ((sum2 ((as const (Array Int Bool)) false) w)))))",
		"(assert (forall ((s (Array Int Bool)) (w (Array Int Int)) (k Int)) (! (=> (not (select s k)) (= (sum2 (store s k true) w) (+ (sum2 s w) (select w k)))) :pattern ((sum2 (store s k true) w)))))",
		// extensionality in the set (contrapositive, with a witness function)
		"(declare-fun sum2sdiff ((Array Int Bool) (Array Int Bool)) Int)",
		"(declare-fun sum2wdiff2 ((Array Int Bool) (Array Int Int) (Array Int Int)) Int)",
		"(assert (forall ((s (Array Int Bool)) (t (Array Int Bool)) (v (Array Int Int)) (w (Array Int Int))) (! (or (= (sum2 s v) (sum2 t w)) (not (= (select s (sum2sdiff s t)) (select t (sum2sdiff s t)))) (and (select s (sum2wdiff2 s v w)) (not (= (select v (sum2wdiff2 s v w)) (select w (sum2wdiff2 s v w)))))) :pattern ((sum2 s v) (sum2 t w)))))",
		// ... and in the weights
		"(declare-fun sum2wdiff ((Array Int Int) (Array Int Int)) Int)",
		"(assert (forall ((s (Array Int Bool)) (v (Array Int Int)) (w (Array Int Int))) (! (or (= (sum2 s v) (sum2 s w)) (not (= (select v (sum2wdiff v w)) (select w (sum2wdiff v w))))) :pattern ((sum2 s v) (sum2 s w)))))",
	)
	e.s.Axioms = append(e.s.Axioms,
		// monotone in the set for non-negative weights: s subset of t and w >= 0 imply sum(s) <= sum(t)
		"(declare-fun sum2sub ((Array Int Bool) (Array Int Bool)) Int)",
		"(declare-fun sum2neg ((Array Int Int)) Int)",
		"(assert (forall ((s (Array Int Bool)) (t (Array Int Bool)) (w (Array Int Int))) (! (or (<= (sum2 s w) (sum2 t w)) (and (select s (sum2sub s t)) (not (select t (sum2sub s t)))) (< (select w (sum2neg w)) 0)) :pattern ((sum2 s w) (sum2 t w)))))",
		"(assert (forall ((s (Array Int Bool)) (w (Array Int Int))) (! (or (>= (sum2 s w) 0) (< (select w (sum2neg w)) 0)) :pattern ((sum2 s w)))))",
		// the sum over a set without elements is 0 (witness: some element of s)
		"(declare-fun sum2elem ((Array Int Bool)) Int)",
		"(assert (forall ((s (Array Int Bool)) (w (Array Int Int))) (! (or (= (sum2 s w) 0) (select s (sum2elem s))) :pattern ((sum2 s w)))))",
	)
	e.note("built-in summation axioms for sum2 (sum of a weight over a finite set) are part of the trusted base")
}

// specAssume evaluates a clause and assumes it together with the well-typedness facts of
// the memory it reads; specOblige assumes those facts and then asserts the clause.
func (e *Enc) specAssume(st *State, x *SExpr, env *SpecEnv) {
	g := e.evalBool(x, env)
	for _, f := range e.lastFacts {
		for _, t := range splitAndTerm(f) {
			e.assume(st, t)
		}
	}
	for _, t := range splitAndTerm(g) {
		e.assume(st, t)
	}
}

func (e *Enc) specOblige(st *State, kind string, x *SExpr, env *SpecEnv, desc string, props []string) {
	for _, part := range splitConj(x) {
		e.curClause = part
		g := e.evalBool(part, env)
		for _, f := range e.lastFacts {
			for _, t := range splitAndTerm(f) {
				e.assume(st, t)
			}
		}
		d := desc
		if part != x {
			d = desc + "  [part: " + part.String() + "]"
		}
		terms := splitAndTerm(g)
		for i, t := range terms {
			d2 := d
			if len(terms) > 1 {
				d2 = fmt.Sprintf("%s  [conjunct %d/%d]", d, i+1, len(terms))
			}
			e.oblige(st, kind, t, d2, props)
		}
		e.curClause = nil
	}
}

// splitAndTerm splits a top-level (and a b c) SMT term (also under (=> p (and ...))).
func splitAndTerm(t string) []string {
	args, op := sexprArgs(t)
	if op == "and" {
		var out []string
		for _, a := range args {
			out = append(out, splitAndTerm(a)...)
		}
		return out
	}
	if op == "forall" && len(args) == 2 {
		body := args[1]
		pats := ""
		if bargs, bop := sexprArgs(body); bop == "!" && len(bargs) >= 1 {
			body = bargs[0]
			pats = " " + strings.Join(bargs[1:], " ")
		}
		if pats != "" {
			rs := splitAndTerm(body)
			if len(rs) > 1 {
				var out []string
				for _, r := range rs {
					out = append(out, "(forall "+args[0]+" (! "+r+pats+"))")
				}
				return out
			}
			return []string{t}
		}
		rs := splitAndTerm(args[1])
		if len(rs) > 1 {
			var out []string
			for _, r := range rs {
				out = append(out, "(forall "+args[0]+" "+r+")")
			}
			return out
		}
	}
	if op == "=>" && len(args) == 2 {
		rs := splitAndTerm(args[1])
		if len(rs) > 1 {
			var out []string
			for _, r := range rs {
				out = append(out, "(=> "+args[0]+" "+r+")")
			}
			return out
		}
	}
	return []string{t}
}

func sexprArgs(t string) ([]string, string) {
	if len(t) < 2 || t[0] != '(' {
		return nil, ""
	}
	var parts []string
	depth := 0
	start := -1
	inBar := false
	for i := 1; i < len(t)-1; i++ {
		c := t[i]
		if inBar {
			if c == '|' {
				inBar = false
			}
			continue
		}
		switch {
		case c == '|':
			inBar = true
			if start < 0 {
				start = i
			}
		case c == '(':
			if depth == 0 && start < 0 {
				start = i
			}
			depth++
		case c == ')':
			depth--
		case c == ' ' || c == '\n':
			if depth == 0 && start >= 0 {
				parts = append(parts, t[start:i])
				start = -1
			}
		default:
			if start < 0 {
				start = i
			}
		}
	}
	if start >= 0 {
		parts = append(parts, t[start:len(t)-1])
	}
	if len(parts) == 0 {
		return nil, ""
	}
	return parts[1:], parts[0]
}

// splitConj splits A && B and P ==> (A && B) into separate goals.
func splitConj(x *SExpr) []*SExpr {
	if x.Op == "bin" && x.Name == "&&" {
		return append(splitConj(x.Args[0]), splitConj(x.Args[1])...)
	}
	if x.Op == "bin" && x.Name == "==>" {
		rs := splitConj(x.Args[1])
		if len(rs) == 1 {
			return []*SExpr{x}
		}
		var out []*SExpr
		for _, r := range rs {
			out = append(out, &SExpr{Op: "bin", Name: "==>", Args: []*SExpr{x.Args[0], r}})
		}
		return out
	}
	return []*SExpr{x}
}

func (e *Enc) note(format string, args ...interface{}) {
	m := fmt.Sprintf(format, args...)
	if !e.notesSet[m] {
		e.notesSet[m] = true
		e.notes = append(e.notes, m)
	}
}

type unsupportedErr struct{ msg string }

func (e *Enc) unsupported(format string, args ...interface{}) {
	panic(unsupportedErr{fmt.Sprintf(format, args...)})
}

// ---------- state helpers ----------

func (e *Enc) flush(st *State) {}

// assume records a fact that holds whenever execution reaches the current point.
func (e *Enc) assume(st *State, f string) {
	if f == "true" || f == "" || st.reach == "false" {
		return
	}
	e.facts = append(e.facts, factRec{st.reach, f})
}

// branch strengthens the path condition with a branch condition.
func (e *Enc) branch(st *State, c string) {
	if st.reach == "false" {
		return
	}
	b := and(st.reach, c)
	if b == "false" {
		st.reach = "false"
		return
	}
	if b == st.reach {
		return
	}
	st.reach = e.s.FreshDef("pc", "Bool", b)
}

func (e *Enc) comp(st *State, name, sort string) string {
	if old, ok := e.compSort[name]; ok {
		if old != sort {
			panic(fmt.Sprintf("component %s sort mismatch %s vs %s", name, old, sort))
		}
	} else {
		e.compSort[name] = sort
	}
	if e.recState == st && e.rec != nil {
		e.rec[name] = true
	}
	if t, ok := st.heap[name]; ok {
		return t
	}
	return e.s.Declare(sym(name+"@0"), sort)
}

func (e *Enc) setComp(st *State, name, sort, term string) {
	if _, ok := e.compSort[name]; !ok {
		e.compSort[name] = sort
	}
	// keep terms small: name every heap version
	st.heap[name] = e.s.FreshDef(sym("h."+name), sort, term)
}

func (e *Enc) oblige(st *State, kind string, goal string, desc string, props []string) {
	if st.dead() {
		return
	}
	e.flush(st)
	if st.dead() {
		return
	}
	if goal == "true" {
		return
	}
	e.oblCount[kind]++
	name := fmt.Sprintf("%s/%s#%d", e.fnName, kind, e.oblCount[kind])
	ps := props
	if len(ps) == 0 {
		ps = e.props
	}
	e.obls = append(e.obls, &Obligation{Name: name, Kind: kind, Hyp: st.reach, NFacts: len(e.facts), Goal: goal, Desc: desc, Props: ps, Fn: e.fnName, Clause: e.curClause})
	e.assume(st, goal)
}

// ---------- zero values, fresh values, wf ----------

func (e *Enc) zero(t types.Type) *Val {
	switch kindOf(t) {
	case KBool:
		return boolVal("false")
	case KInt:
		return intVal(t, "0")
	case KSlice:
		return &Val{T: t, K: KSlice, S: []string{"0", "0", "0"}}
	case KIface:
		return &Val{T: t, K: KIface, S: []string{"0", "0"}}
	case KStruct:
		v := &Val{T: t, K: KStruct}
		switch u := t.Underlying().(type) {
		case *types.Struct:
			for i := 0; i < u.NumFields(); i++ {
				v.F = append(v.F, e.zero(u.Field(i).Type()))
			}
		case *types.Array:
			if u.Len() > maxArrayVal {
				e.unsupported("array value of length %d", u.Len())
			}
			for i := int64(0); i < u.Len(); i++ {
				v.F = append(v.F, e.zero(u.Elem()))
			}
		}
		return v
	case KTuple:
		tu := t.(*types.Tuple)
		v := &Val{T: t, K: KTuple}
		for i := 0; i < tu.Len(); i++ {
			v.F = append(v.F, e.zero(tu.At(i).Type()))
		}
		return v
	case KUnit:
		return unitVal()
	}
	panic("zero")
}

func (e *Enc) fresh(t types.Type, name string) *Val {
	switch kindOf(t) {
	case KBool:
		return boolVal(e.s.Fresh(name, "Bool"))
	case KInt:
		return intVal(t, e.s.Fresh(name, "Int"))
	case KSlice:
		return &Val{T: t, K: KSlice, S: []string{e.s.Fresh(name+".ptr", "Int"), e.s.Fresh(name+".len", "Int"), e.s.Fresh(name+".cap", "Int")}}
	case KIface:
		return &Val{T: t, K: KIface, S: []string{e.s.Fresh(name+".tag", "Int"), e.s.Fresh(name+".val", "Int")}}
	case KStruct:
		v := &Val{T: t, K: KStruct}
		switch u := t.Underlying().(type) {
		case *types.Struct:
			for i := 0; i < u.NumFields(); i++ {
				v.F = append(v.F, e.fresh(u.Field(i).Type(), name+"."+u.Field(i).Name()))
			}
		case *types.Array:
			if u.Len() > maxArrayVal {
				e.unsupported("array value of length %d", u.Len())
			}
			for i := int64(0); i < u.Len(); i++ {
				v.F = append(v.F, e.fresh(u.Elem(), fmt.Sprintf("%s.%d", name, i)))
			}
		}
		return v
	case KTuple:
		tu := t.(*types.Tuple)
		v := &Val{T: t, K: KTuple}
		for i := 0; i < tu.Len(); i++ {
			v.F = append(v.F, e.fresh(tu.At(i).Type(), fmt.Sprintf("%s.%d", name, i)))
		}
		return v
	case KUnit:
		return unitVal()
	}
	panic("fresh")
}

// wf: well-formedness of a value of its Go type relative to the allocation frontier.
func (e *Enc) wf(v *Val, alloc string) string {
	if v == nil || v.T == nil {
		return "true"
	}
	switch v.K {
	case KBool, KUnit, KArr:
		return "true"
	case KInt:
		t := v.T
		if _, _, ok := intInfo(t); ok {
			return rangeOf(t, v.S[0])
		}
		switch u := t.Underlying().(type) {
		case *types.Pointer:
			sz := sizeOf(u.Elem())
			return fmt.Sprintf("(and (<= 0 %s) (<= (+ %s %d) %s))", v.S[0], v.S[0], sz, alloc)
		case *types.Map, *types.Chan:
			return fmt.Sprintf("(and (<= 0 %s) (< %s %s))", v.S[0], v.S[0], alloc)
		}
		return "true"
	case KSlice:
		k := sizeOf(elemType(v.T))
		p, l, c := v.S[0], v.S[1], v.S[2]
		return fmt.Sprintf("(and (<= 0 %s) (<= 0 %s) (<= %s %s) (<= %s %s) (<= (+ %s %s) %s) (=> (= %s 0) (= %s 0)))",
			p, l, l, c, c, pow2(62), p, mulK(k, c), alloc, p, c)
	case KIface:
		return fmt.Sprintf("(and (<= 0 %s) (=> (= %s 0) (= %s 0)))", v.S[0], v.S[0], v.S[1])
	case KStruct, KTuple:
		var cs []string
		for _, f := range v.F {
			cs = append(cs, e.wf(f, alloc))
		}
		return and(cs...)
	}
	return "true"
}

// name every leaf of a value (so later uses share a small symbol)
func (e *Enc) nameVal(v *Val, name string) *Val {
	switch v.K {
	case KInt, KBool:
		if _, ok := e.s.defs[v.S[0]]; ok || isLiteral(v.S[0]) {
			return v
		}
		sortS := "Int"
		if v.K == KBool {
			sortS = "Bool"
		}
		n := *v
		n.S = []string{e.s.FreshDef(name, sortS, v.S[0])}
		return &n
	case KSlice, KIface:
		n := *v
		n.S = make([]string, len(v.S))
		for i, s := range v.S {
			if _, ok := e.s.defs[s]; ok || isLiteral(s) {
				n.S[i] = s
			} else {
				n.S[i] = e.s.FreshDef(name, "Int", s)
			}
		}
		return &n
	case KStruct, KTuple:
		n := *v
		n.F = make([]*Val, len(v.F))
		for i, f := range v.F {
			n.F[i] = e.nameVal(f, name)
		}
		return &n
	}
	return v
}

func isLiteral(s string) bool {
	if s == "true" || s == "false" {
		return true
	}
	if len(s) == 0 {
		return false
	}
	for i := 0; i < len(s); i++ {
		if s[i] < '0' || s[i] > '9' {
			return false
		}
	}
	return true
}

// leaf-wise ite
func (e *Enc) iteVal(c string, a, b *Val) *Val {
	if a == b {
		return a
	}
	if a.K != b.K {
		panic(fmt.Sprintf("iteVal kind mismatch %d %d", a.K, b.K))
	}
	n := *a
	if b.Comp != a.Comp || a.Comp != "" {
		e.unsupported("merge of pointers into field components %q %q", a.Comp, b.Comp)
	}
	if a.Fn != b.Fn {
		n.Fn = nil
		n.Bind = nil
	}
	switch a.K {
	case KInt, KBool, KSlice, KIface, KArr:
		n.S = make([]string, len(a.S))
		for i := range a.S {
			n.S[i] = ite(c, a.S[i], b.S[i])
		}
	case KStruct, KTuple:
		n.F = make([]*Val, len(a.F))
		for i := range a.F {
			n.F[i] = e.iteVal(c, a.F[i], b.F[i])
		}
	}
	return &n
}

func (e *Enc) eqVal(a, b *Val) string {
	switch a.K {
	case KInt, KBool, KArr:
		return eq(a.S[0], b.S[0])
	case KIface:
		if b.K != KIface {
			panic("eqVal iface vs non-iface")
		}
		return and(eq(a.S[0], b.S[0]), eq(a.S[1], b.S[1]))
	case KSlice:
		return and(eq(a.S[0], b.S[0]), eq(a.S[1], b.S[1]), eq(a.S[2], b.S[2]))
	case KStruct, KTuple:
		var cs []string
		for i := range a.F {
			cs = append(cs, e.eqVal(a.F[i], b.F[i]))
		}
		return and(cs...)
	case KUnit:
		return "true"
	}
	panic("eqVal")
}

// ---------- memory ----------

func compFor(t types.Type, ctx string) string {
	if ctx != "" {
		return ctx
	}
	return "E:" + typeKey(t)
}

// loadAt reads a value of type t at address addr. ctx is the static component for leaves
// ("" = element/cell component chosen by type).
func (e *Enc) loadAt(st *State, addr string, t types.Type, ctx string) *Val {
	switch u := t.Underlying().(type) {
	case *types.Struct:
		v := &Val{T: t, K: KStruct}
		sk := structKey(t)
		for i := 0; i < u.NumFields(); i++ {
			off := fieldOff(u, i)
			fa := addOff(addr, off)
			v.F = append(v.F, e.loadAt(st, fa, u.Field(i).Type(), "F:"+sk+"."+u.Field(i).Name()))
		}
		return v
	case *types.Array:
		if u.Len() > maxArrayVal {
			e.unsupported("load of array value of length %d", u.Len())
		}
		v := &Val{T: t, K: KStruct}
		sz := sizeOf(u.Elem())
		for i := int64(0); i < u.Len(); i++ {
			v.F = append(v.F, e.loadAt(st, addOff(addr, i*sz), u.Elem(), ctx))
		}
		return v
	}
	c := compFor(t, ctx)
	v := &Val{T: t, K: kindOf(t)}
	for _, lf := range leavesOf(t) {
		arr := e.comp(st, c+lf.suffix, "(Array Int "+lf.sort+")")
		v.S = append(v.S, sel(arr, addr))
	}
	return v
}

func addOff(addr string, off int64) string {
	if off == 0 {
		return addr
	}
	return fmt.Sprintf("(+ %s %d)", addr, off)
}

func (e *Enc) storeAt(st *State, addr string, t types.Type, ctx string, v *Val) {
	switch u := t.Underlying().(type) {
	case *types.Struct:
		sk := structKey(t)
		for i := 0; i < u.NumFields(); i++ {
			off := fieldOff(u, i)
			e.storeAt(st, addOff(addr, off), u.Field(i).Type(), "F:"+sk+"."+u.Field(i).Name(), v.F[i])
		}
		return
	case *types.Array:
		if u.Len() > maxArrayVal {
			e.unsupported("store of array value of length %d", u.Len())
		}
		sz := sizeOf(u.Elem())
		for i := int64(0); i < u.Len(); i++ {
			e.storeAt(st, addOff(addr, i*sz), u.Elem(), ctx, v.F[i])
		}
		return
	}
	c := compFor(t, ctx)
	for i, lf := range leavesOf(t) {
		sortS := "(Array Int " + lf.sort + ")"
		arr := e.comp(st, c+lf.suffix, sortS)
		e.frameCheckStore(st, c+lf.suffix, addr)
		e.setComp(st, c+lf.suffix, sortS, sto(arr, addr, v.S[i]))
	}
}

// all leaf components (with sorts) of values of type t stored in memory with context ctx
func (e *Enc) memLeaves(t types.Type, ctx string, out *[]leaf) {
	switch u := t.Underlying().(type) {
	case *types.Struct:
		sk := structKey(t)
		for i := 0; i < u.NumFields(); i++ {
			e.memLeaves(u.Field(i).Type(), "F:"+sk+"."+u.Field(i).Name(), out)
		}
		return
	case *types.Array:
		e.memLeaves(u.Elem(), ctx, out)
		return
	}
	c := compFor(t, ctx)
	for _, lf := range leavesOf(t) {
		*out = append(*out, leaf{c + lf.suffix, "(Array Int " + lf.sort + ")"})
	}
}

func zeroOfSort(arrSort string) string {
	if strings.HasSuffix(arrSort, "Bool)") {
		return "false"
	}
	return "0"
}

// rangeCopy: comp'[a] = comp[a-dst+src] for a in [dst,dst+n), else comp[a]
func (e *Enc) rangeCopy(st *State, t types.Type, dst, src, n string, cond string) {
	var lvs []leaf
	e.memLeaves(t, "", &lvs)
	seen := map[string]bool{}
	for _, lf := range lvs {
		if seen[lf.suffix] {
			continue
		}
		seen[lf.suffix] = true
		old := e.comp(st, lf.suffix, lf.sort)
		nw := e.s.Fresh(sym("h."+lf.suffix), lf.sort)
		inr := fmt.Sprintf("(and %s (<= %s a!c) (< a!c (+ %s %s)))", cond, dst, dst, n)
		e.s.AddFact(nw, fmt.Sprintf("(forall ((a!c Int)) (! (= (select %s a!c) (ite %s (select %s (+ (- a!c %s) %s)) (select %s a!c))) :pattern ((select %s a!c))))",
			nw, inr, old, dst, src, old, nw))
		e.frameCheckRange(st, lf.suffix, dst, n, cond)
		st.heap[lf.suffix] = nw
	}
}

func (e *Enc) rangeZero(st *State, t types.Type, dst, n string) {
	var lvs []leaf
	e.memLeaves(t, "", &lvs)
	seen := map[string]bool{}
	for _, lf := range lvs {
		if seen[lf.suffix] {
			continue
		}
		seen[lf.suffix] = true
		old := e.comp(st, lf.suffix, lf.sort)
		nw := e.s.Fresh(sym("h."+lf.suffix), lf.sort)
		e.s.AddFact(nw, fmt.Sprintf("(forall ((a!c Int)) (! (= (select %s a!c) (ite (and (<= %s a!c) (< a!c (+ %s %s))) %s (select %s a!c))) :pattern ((select %s a!c))))",
			nw, dst, dst, n, zeroOfSort(lf.sort), old, nw))
		st.heap[lf.suffix] = nw
	}
}

// ---------- frame (modifies) checking ----------

type modSet struct {
	// per component: list of allowed (lo, n) address ranges (terms over entry state); whole=true means any
	comps map[string][]modRange
	all   bool
}
type modRange struct{ lo, n string }

func (e *Enc) frameCheckStore(st *State, comp, addr string) {
	// checked at the end via whole-component comparison; nothing to do here
}
func (e *Enc) frameCheckRange(st *State, comp, dst, n, cond string) {}

// ---------- constants ----------

func (e *Enc) strID(s string) string {
	if s == "" {
		return "0"
	}
	id, ok := e.strIDs[s]
	if !ok {
		id = len(e.strIDs) + 1
		e.strIDs[s] = id
	}
	return fmt.Sprintf("%d", id)
}

func (e *Enc) typeID(t types.Type) string {
	k := typeKey(t)
	if e.w.typeByKey == nil {
		e.w.typeByKey = map[string]types.Type{}
	}
	e.w.typeByKey[k] = t
	id, ok := e.w.typeIDs[k]
	if !ok {
		id = len(e.w.typeIDs) + 1
		e.w.typeIDs[k] = id
	}
	return fmt.Sprintf("%d", id)
}

func (e *Enc) constVal(c *ssa.Const) *Val {
	t := c.Type()
	if c.Value == nil {
		return e.zero(t)
	}
	switch kindOf(t) {
	case KBool:
		if constant.BoolVal(c.Value) {
			return boolVal("true")
		}
		return boolVal("false")
	case KInt:
		if isString(t) {
			return intVal(t, e.strID(constant.StringVal(c.Value)))
		}
		if isFloat(t) {
			return intVal(t, e.s.Fresh("fconst", "Int"))
		}
		v := constant.ToInt(c.Value)
		if v.Kind() != constant.Int {
			e.unsupported("constant %v", c)
		}
		s := v.ExactString()
		if strings.HasPrefix(s, "-") {
			s = "(- " + s[1:] + ")"
		}
		return intVal(t, s)
	}
	e.unsupported("constant of type %v", t)
	return nil
}

// ---------- value lookup ----------

func (e *Enc) val(fr *Frame, st *State, v ssa.Value) *Val {
	if fr.phiOver != nil {
		if x, ok := fr.phiOver[v]; ok {
			return x
		}
	}
	if x, ok := fr.vals[v]; ok {
		return x
	}
	switch c := v.(type) {
	case *ssa.Const:
		return e.constVal(c)
	case *ssa.Global:
		return e.globalAddr(c)
	case *ssa.Function:
		return &Val{T: c.Type(), K: KInt, S: []string{e.funcID(c)}, Fn: c}
	case *ssa.Builtin:
		return &Val{T: c.Type(), K: KInt, S: []string{"0"}}
	case *ssa.FreeVar:
		e.unsupported("free variable %s without binding", c.Name())
	}
	e.unsupported("value %s (%T) not available", v.Name(), v)
	return nil
}

func (e *Enc) funcID(f *ssa.Function) string {
	k := "func:" + f.String()
	id, ok := e.w.typeIDs[k]
	if !ok {
		id = len(e.w.typeIDs) + 1
		e.w.typeIDs[k] = id
	}
	return fmt.Sprintf("%d", 1000000+id)
}

func (e *Enc) globalAddr(g *ssa.Global) *Val {
	addr := e.w.globalAddr(g)
	return &Val{T: g.Type(), K: KInt, S: []string{addr}}
}

// ---------- running a function body ----------

type edgeIn struct {
	from *ssa.BasicBlock
	st   *State
}

func (e *Enc) findLoops(fn *ssa.Function) map[*ssa.BasicBlock]*loopInfo {
	loops := map[*ssa.BasicBlock]*loopInfo{}
	for _, b := range fn.Blocks {
		for _, s := range b.Succs {
			if s.Dominates(b) {
				li := loops[s]
				if li == nil {
					li = &loopInfo{header: s, body: map[*ssa.BasicBlock]bool{s: true}}
					loops[s] = li
				}
				li.back = append(li.back, b)
				// natural loop: all blocks that reach b without passing header
				stack := []*ssa.BasicBlock{b}
				for len(stack) > 0 {
					x := stack[len(stack)-1]
					stack = stack[:len(stack)-1]
					if li.body[x] {
						continue
					}
					li.body[x] = true
					for _, p := range x.Preds {
						stack = append(stack, p)
					}
				}
			}
		}
	}
	// ordinals by source position of header (fallback block index)
	var hs []*ssa.BasicBlock
	for h := range loops {
		hs = append(hs, h)
	}
	sort.Slice(hs, func(i, j int) bool {
		pi, pj := blockPos(hs[i]), blockPos(hs[j])
		if pi != pj {
			return pi < pj
		}
		return hs[i].Index < hs[j].Index
	})
	for i, h := range hs {
		loops[h].ord = i + 1
	}
	return loops
}

func blockPos(b *ssa.BasicBlock) token.Pos {
	var best token.Pos
	for _, in := range b.Instrs {
		if p := in.Pos(); p.IsValid() {
			if best == 0 || p < best {
				best = p
			}
		}
	}
	if best == 0 {
		// use preds' back edge source or successors
		for _, s := range b.Succs {
			for _, in := range s.Instrs {
				if p := in.Pos(); p.IsValid() && (best == 0 || p < best) {
					best = p
				}
			}
		}
	}
	return best
}

func rpo(fn *ssa.Function) []*ssa.BasicBlock {
	var order []*ssa.BasicBlock
	seen := map[*ssa.BasicBlock]bool{}
	var dfs func(b *ssa.BasicBlock)
	dfs = func(b *ssa.BasicBlock) {
		seen[b] = true
		for _, s := range b.Succs {
			if !seen[s] {
				dfs(s)
			}
		}
		order = append(order, b)
	}
	dfs(fn.Blocks[0])
	for i, j := 0, len(order)-1; i < j; i, j = i+1, j-1 {
		order[i], order[j] = order[j], order[i]
	}
	return order
}

type retPoint struct {
	st  *State
	res *Val
}

// runBody encodes fn's body starting in state init with parameter values bound in fr.vals.
// Returns the merged state at function exit and the result value.
func (e *Enc) runBody(fr *Frame, init *State) (*State, *Val) {
	fn := fr.fn
	if fn.Blocks == nil {
		e.unsupported("function %s has no body", fn)
	}
	if fn.Recover != nil {
		// functions with defer have a recover block; it is only reachable via recover()
	}
	fr.loops = e.findLoops(fn)
	ins := map[*ssa.BasicBlock][]edgeIn{}
	var rets []retPoint
	order := rpo(fn)
	ins[fn.Blocks[0]] = []edgeIn{{nil, init}}
	for _, b := range order {
		if fn.Recover == b {
			continue
		}
		in := ins[b]
		delete(ins, b)
		if len(in) == 0 {
			continue
		}
		st := e.enterBlock(fr, b, in)
		if st == nil || st.dead() {
			continue
		}
		for _, instr := range b.Instrs {
			if st.dead() {
				break
			}
			switch x := instr.(type) {
			case *ssa.If:
				c := e.val(fr, st, x.Cond).term()
				e.flush(st)
				t := st.clone()
				e.branch(t, c)
				f := st.clone()
				e.branch(f, not(c))
				e.edge(fr, ins, b, b.Succs[0], t)
				e.edge(fr, ins, b, b.Succs[1], f)
			case *ssa.Jump:
				e.edge(fr, ins, b, b.Succs[0], st)
			case *ssa.Return:
				var res *Val
				switch len(x.Results) {
				case 0:
					res = unitVal()
				case 1:
					res = e.val(fr, st, x.Results[0])
				default:
					res = &Val{T: fn.Signature.Results(), K: KTuple}
					for _, r := range x.Results {
						res.F = append(res.F, e.val(fr, st, r))
					}
				}
				e.flush(st)
				if fr.top && e.retHook != nil && !st.dead() {
					e.retHook(st.clone(), res)
				}
				rets = append(rets, retPoint{st, res})
			case *ssa.Panic:
				st.reach = "false"
			default:
				e.instr(fr, st, instr)
			}
		}
	}
	// merge returns
	if len(rets) == 0 {
		d := init.clone()
		d.reach = "false"
		return d, e.zero(fn.Signature.Results())
	}
	var eds []edgeIn
	var vals []*Val
	for _, r := range rets {
		eds = append(eds, edgeIn{nil, r.st})
		vals = append(vals, r.res)
	}
	final := e.mergeStates(eds)
	res := vals[len(vals)-1]
	for i := len(vals) - 2; i >= 0; i-- {
		res = e.iteVal(eds[i].st.reach, vals[i], res)
	}
	if len(vals) > 1 {
		res = e.nameVal(res, "ret")
	}
	return final, res
}

func (e *Enc) edge(fr *Frame, ins map[*ssa.BasicBlock][]edgeIn, from, to *ssa.BasicBlock, st *State) {
	if st.dead() {
		return
	}
	if li := fr.loops[to]; li != nil && to.Dominates(from) {
		// back edge: per-iteration obligations, then the invariants
		if c := e.w.contractFor(fr.fn); c != nil && len(c.LoopStep[li.ord]) > 0 {
			env := e.specEnv(fr, st, from)
			env.atEnd = true
			for _, cl := range c.LoopStep[li.ord] {
				st2 := st.clone()
				e.specOblige(st2, fmt.Sprintf("loop%d-step", li.ord), cl.E, env, cl.Src, cl.Props)
			}
		}
		e.checkLoopInv(fr, li, from, st, "preserve")
		return
	}
	ins[to] = append(ins[to], edgeIn{from, st})
}

func (e *Enc) mergeStates(in []edgeIn) *State {
	var live []edgeIn
	for _, x := range in {
		e.flush(x.st)
		if !x.st.dead() {
			live = append(live, x)
		}
	}
	if len(live) == 0 {
		return &State{reach: "false", heap: map[string]string{}, alloc: "0"}
	}
	if len(live) == 1 {
		return live[0].st.clone()
	}
	n := &State{heap: map[string]string{}}
	var rs []string
	for _, x := range live {
		rs = append(rs, x.st.reach)
	}
	n.reach = e.s.FreshDef("r", "Bool", or(rs...))
	keys := map[string]bool{}
	for _, x := range live {
		for k := range x.st.heap {
			keys[k] = true
		}
	}
	var ks []string
	for k := range keys {
		ks = append(ks, k)
	}
	sort.Strings(ks)
	get := func(st *State, k string) string {
		if t, ok := st.heap[k]; ok {
			return t
		}
		return e.s.Declare(sym(k+"@0"), e.compSort[k])
	}
	for _, k := range ks {
		t := get(live[len(live)-1].st, k)
		same := true
		for _, x := range live {
			if get(x.st, k) != t {
				same = false
			}
		}
		if same {
			n.heap[k] = t
			continue
		}
		anyQ := false
		for _, x := range live {
			if e.s.Q[get(x.st, k)] {
				anyQ = true
			}
		}
		if anyQ && strings.HasPrefix(e.compSort[k], "(Array Int ") {
			// pointwise merge keeps quantified array definitions E-matchable
			pt := sel(t, "a!c")
			for i := len(live) - 2; i >= 0; i-- {
				pt = ite(live[i].st.reach, sel(get(live[i].st, k), "a!c"), pt)
			}
			nw := e.s.Fresh("h."+k, e.compSort[k])
			e.s.AddFact(nw, fmt.Sprintf("(forall ((a!c Int)) (! (= (select %s a!c) %s) :pattern ((select %s a!c))))", nw, pt, nw))
			n.heap[k] = nw
			continue
		}
		for i := len(live) - 2; i >= 0; i-- {
			t = ite(live[i].st.reach, get(live[i].st, k), t)
		}
		n.heap[k] = e.s.FreshDef(sym("h."+k), e.compSort[k], t)
	}
	a := live[len(live)-1].st.alloc
	for i := len(live) - 2; i >= 0; i-- {
		a = ite(live[i].st.reach, live[i].st.alloc, a)
	}
	if !isLiteral(a) {
		if _, ok := e.s.defs[a]; !ok {
			a = e.s.FreshDef("alloc", "Int", a)
		}
	}
	n.alloc = a
	return n
}

func (e *Enc) enterBlock(fr *Frame, b *ssa.BasicBlock, in []edgeIn) *State {
	var live []edgeIn
	for _, x := range in {
		e.flush(x.st)
		if !x.st.dead() {
			live = append(live, x)
		}
	}
	if len(live) == 0 {
		return nil
	}
	st := e.mergeStates(live)
	// phis (entry edges only)
	phiVals := map[*ssa.Phi]*Val{}
	for _, instr := range b.Instrs {
		phi, ok := instr.(*ssa.Phi)
		if !ok {
			break
		}
		var v *Val
		for i := len(live) - 1; i >= 0; i-- {
			idx := predIndex(b, live[i].from)
			x := e.val(fr, live[i].st, phi.Edges[idx])
			if v == nil {
				v = x
			} else {
				v = e.iteVal(live[i].st.reach, x, v)
			}
		}
		phiVals[phi] = v
	}
	li := fr.loops[b]
	if li == nil {
		for phi, v := range phiVals {
			fr.vals[phi] = e.nameVal(v, phi.Name())
		}
		return st
	}
	// loop header: check invariants on entry, then havoc
	over := map[ssa.Value]*Val{}
	for phi, v := range phiVals {
		over[phi] = e.nameVal(v, phi.Name()+".in")
	}
	e.checkLoopInvWith(fr, li, st, over, "entry")
	// havoc (loop-frame targets are evaluated with the entry values of the loop variables)
	savePO := fr.phiOver
	fr.phiOver = over
	e.havocLoop(fr, li, st)
	fr.phiOver = savePO
	for _, instr := range b.Instrs {
		phi, ok := instr.(*ssa.Phi)
		if !ok {
			break
		}
		nv := e.fresh(phi.Type(), phi.Name())
		if pv := phiVals[phi]; pv != nil && pv.Comp != "" {
			e.unsupported("loop phi of field pointer")
		}
		fr.vals[phi] = nv
		e.assume(st, e.wf(nv, st.alloc))
		if phi.Comment == "rangeindex" {
			// go/ssa range-over-slice loops: i = phi(-1, i+1)
			e.assume(st, fmt.Sprintf("(>= %s (- 1))", nv.term()))
			// ... and the loop condition i+1 < n (n computed before the loop) gives i < n
			for _, in2 := range b.Instrs {
				add, ok := in2.(*ssa.BinOp)
				if !ok || add.Op != token.ADD || add.X != ssa.Value(phi) {
					continue
				}
				for _, in3 := range b.Instrs {
					cmp, ok := in3.(*ssa.BinOp)
					if ok && cmp.Op == token.LSS && cmp.X == ssa.Value(add) {
						if nval, have := fr.vals[cmp.Y]; have {
							e.assume(st, fmt.Sprintf("(and (<= 0 %s) (< %s %s))", nval.term(), nv.term(), nval.term()))
						}
					}
				}
			}
		}
	}
	// counter loops written by hand (for i := c; i < n; i += k): the counter never drops below its
	// initial value. This is an inductive fact of the loop itself (i < n at the top of every iteration
	// keeps i+k from wrapping for k == 1), so it needs no declared invariant -- without it the bounds
	// obligation of s[i] fails for a loop that is equivalent to `for i := range s`.
	for _, instr := range b.Instrs {
		phi, ok := instr.(*ssa.Phi)
		if !ok {
			break
		}
		if len(phi.Edges) != 2 || phi.Comment == "rangeindex" {
			continue
		}
		bt, isB := phi.Type().Underlying().(*types.Basic)
		if !isB || bt.Info()&types.IsInteger == 0 || bt.Info()&types.IsUnsigned != 0 {
			continue
		}
		guarded := false
		for _, in2 := range b.Instrs {
			if cmp, ok := in2.(*ssa.BinOp); ok && cmp.Op == token.LSS && cmp.X == ssa.Value(phi) {
				guarded = true
			}
		}
		if !guarded {
			continue
		}
		for k := 0; k < 2; k++ {
			c0, isC := phi.Edges[k].(*ssa.Const)
			step, isS := phi.Edges[1-k].(*ssa.BinOp)
			if !isC || !isS || c0.Value == nil || step.Op != token.ADD || step.X != ssa.Value(phi) {
				continue
			}
			one, isOne := step.Y.(*ssa.Const)
			if !isOne || one.Value == nil || one.Value.ExactString() != "1" {
				continue
			}
			if nv, have := fr.vals[phi]; have {
				e.assume(st, fmt.Sprintf("(>= %s %s)", nv.term(), smtInt(c0.Value.ExactString())))
			}
		}
	}
	// assume invariants
	e.assumeLoopInv(fr, li, st)
	return st
}

func smtInt(s string) string {
	if strings.HasPrefix(s, "-") {
		return "(- " + s[1:] + ")"
	}
	return s
}

func predIndex(b, from *ssa.BasicBlock) int {
	for i, p := range b.Preds {
		if p == from {
			return i
		}
	}
	panic("predIndex")
}

// ---------- loops ----------

func (e *Enc) loopClauses(fr *Frame, li *loopInfo) []*Clause {
	c := e.w.contractFor(fr.fn)
	if c == nil {
		return nil
	}
	return c.LoopInv[li.ord]
}

func (e *Enc) checkLoopFrame(fr *Frame, li *loopInfo, st *State) {
	var comps []string
	for c := range li.frameRanges {
		comps = append(comps, c)
	}
	sort.Strings(comps)
	for _, comp := range comps {
		hv := li.hdrHeap[comp]
		cur := e.comp(st, comp, e.compSort[comp])
		if cur == hv {
			continue
		}
		a := e.s.Fresh("lfa", "Int")
		var allowed []string
		bound := li.hdrAlloc
		for _, r := range li.frameRanges[comp] {
			if r[0] == "fresh" {
				continue
			}
			if r[0] == "fresh0" {
				bound = e.top.entry.alloc
				continue
			}
			allowed = append(allowed, fmt.Sprintf("(and (<= %s %s) (< %s (+ %s %s)))", r[0], a, a, r[0], r[1]))
		}
		goal := implies(and(fmt.Sprintf("(< %s %s)", a, bound), not(or(allowed...))), eq(sel(cur, a), sel(hv, a)))
		st2 := st.clone()
		e.oblige(st2, fmt.Sprintf("loop%d-frame:%s", li.ord, comp), goal, "loop body writes "+comp+" only inside the declared loop frame", nil)
	}
}

func (e *Enc) checkLoopInv(fr *Frame, li *loopInfo, from *ssa.BasicBlock, st *State, which string) {
	if which == "preserve" && len(li.frameRanges) > 0 {
		e.checkLoopFrame(fr, li, st)
	}
	over := map[ssa.Value]*Val{}
	idx := predIndex(li.header, from)
	for _, instr := range li.header.Instrs {
		phi, ok := instr.(*ssa.Phi)
		if !ok {
			break
		}
		over[phi] = e.val(fr, st, phi.Edges[idx])
	}
	e.checkLoopInvWith(fr, li, st, over, which)
}

func (e *Enc) checkLoopInvWith(fr *Frame, li *loopInfo, st *State, over map[ssa.Value]*Val, which string) {
	cls := e.loopClauses(fr, li)
	if len(cls) == 0 {
		return
	}
	st = st.clone()
	save := fr.phiOver
	fr.phiOver = over
	defer func() { fr.phiOver = save }()
	for _, cl := range cls {
		env := e.specEnv(fr, st, li.header)
		if cl.Free {
			e.specAssume(st, cl.E, env)
			continue
		}
		kind := fmt.Sprintf("loop%d-%s", li.ord, which)
		if fr.top == false {
			kind = fr.callName + "." + kind
		}
		e.specOblige(st, kind, cl.E, env, cl.Src, cl.Props)
	}
}

func (e *Enc) assumeLoopInv(fr *Frame, li *loopInfo, st *State) {
	for _, cl := range e.loopClauses(fr, li) {
		env := e.specEnv(fr, st, li.header)
		if cl.Free {
			e.note("free loop invariant assumed in %s loop %d: %s", fr.fn.Name(), li.ord, cl.Src)
		}
		e.specAssume(st, cl.E, env)
	}
}

// write sets: per component either the whole component or a list of address ranges
type wsInfo struct {
	sort   string
	whole  bool
	ranges [][2]string // lo, n ; lo == "fresh" means anything allocated after loop entry
}
type WS map[string]*wsInfo

func (ws WS) get(comp, sort string) *wsInfo {
	w := ws[comp]
	if w == nil {
		w = &wsInfo{sort: sort}
		ws[comp] = w
	}
	return w
}
func (ws WS) whole(comp, sort string) { ws.get(comp, sort).whole = true }
func (ws WS) rng(comp, sort, lo, n string) {
	w := ws.get(comp, sort)
	for _, r := range w.ranges {
		if r[0] == lo && r[1] == n {
			return
		}
	}
	w.ranges = append(w.ranges, [2]string{lo, n})
}

// havocLoop replaces every component the loop body may write by a fresh version that
// agrees with the old one outside the (syntactically determined) written regions.
func (e *Enc) havocLoop(fr *Frame, li *loopInfo, st *State) {
	ws := WS{}
	allocs := false
	all := false
	for b := range li.body {
		for _, instr := range b.Instrs {
			e.writeSet(fr, li, st, instr, ws, &allocs, &all, 0)
		}
	}
	if all {
		e.havocAll(st)
		return
	}
	// explicit loop frame
	if c := e.w.contractFor(fr.fn); c != nil && len(c.LoopMod[li.ord]) > 0 {
		env := e.specEnv(fr, st, li.header)
		li.frameRanges = map[string][][2]string{}
		for _, cl := range c.LoopMod[li.ord] {
			for _, t := range e.evalModTarget(cl.E, env) {
				switch t.kind {
				case "point":
					li.frameRanges[t.comp] = append(li.frameRanges[t.comp], [2]string{t.addr, "1"})
				case "range":
					li.frameRanges[t.comp] = append(li.frameRanges[t.comp], [2]string{t.addr, t.n})
				case "fresh":
					li.frameRanges[t.comp] = append(li.frameRanges[t.comp], [2]string{"fresh0", ""})
				}
				if _, ok := ws[t.comp]; !ok {
					ws.get(t.comp, t.sort)
				}
			}
		}
		for comp, rs := range li.frameRanges {
			w := ws[comp]
			// keep "fresh" ranges found syntactically, replace the rest by the declared frame
			keep := [][2]string{{"fresh", ""}}
			w.whole = false
			for _, r := range rs {
				keep = append(keep, r)
			}
			w.ranges = keep
		}
	}
	var ks []string
	for k := range ws {
		ks = append(ks, k)
	}
	sort.Strings(ks)
	entryAlloc := st.alloc
	li.hdrHeap = map[string]string{}
	defer func() {
		for comp := range li.frameRanges {
			li.hdrHeap[comp] = st.heap[comp]
		}
		li.hdrAlloc = entryAlloc
	}()
	priv := e.privateCells(fr, li)
	privIn := func(k string) string {
		var ds []string
		for _, a := range priv {
			t := derefType(a.Type())
			var lvs []leaf
			e.memLeaves(t, "", &lvs)
			has := false
			for _, lf := range lvs {
				if lf.suffix == k {
					has = true
					break
				}
			}
			if !has {
				continue
			}
			addr := fr.vals[a].term()
			ds = append(ds, fmt.Sprintf("(and (<= %s a!c) (< a!c (+ %s %d)))", addr, addr, sizeOf(t)))
			if len(ds) >= 8 {
				break
			}
		}
		if len(ds) == 0 {
			return ""
		}
		return or(ds...)
	}
	for _, k := range ks {
		w := ws[k]
		old := e.comp(st, k, w.sort)
		nw := e.s.Fresh("h."+k, w.sort)
		pin := privIn(k)
		if w.whole && pin != "" {
			e.s.AddFact(nw, fmt.Sprintf("(forall ((a!c Int)) (! (=> %s (= (select %s a!c) (select %s a!c))) :pattern ((select %s a!c))))",
				pin, nw, old, nw))
		}
		if !w.whole && pin != "" {
			var outs []string
			for _, r := range w.ranges {
				if r[0] == "fresh" {
					outs = append(outs, fmt.Sprintf("(< a!c %s)", entryAlloc))
				} else if r[0] == "fresh0" {
					outs = append(outs, fmt.Sprintf("(< a!c %s)", e.top.entry.alloc))
				} else {
					outs = append(outs, fmt.Sprintf("(not (and (<= %s a!c) (< a!c (+ %s %s))))", r[0], r[0], r[1]))
				}
			}
			e.s.AddFact(nw, fmt.Sprintf("(forall ((a!c Int)) (! (=> (or %s %s) (= (select %s a!c) (select %s a!c))) :pattern ((select %s a!c))))",
				and(outs...), pin, nw, old, nw))
			st.heap[k] = nw
			continue
		}
		if !w.whole {
			var outs []string
			for _, r := range w.ranges {
				if r[0] == "fresh" {
					outs = append(outs, fmt.Sprintf("(< a!c %s)", entryAlloc))
				} else if r[0] == "fresh0" {
					// declared: objects allocated since function entry may be written
					outs = append(outs, fmt.Sprintf("(< a!c %s)", e.top.entry.alloc))
				} else {
					outs = append(outs, fmt.Sprintf("(not (and (<= %s a!c) (< a!c (+ %s %s))))", r[0], r[0], r[1]))
				}
			}
			e.s.AddFact(nw, fmt.Sprintf("(forall ((a!c Int)) (! (=> %s (= (select %s a!c) (select %s a!c))) :pattern ((select %s a!c))))",
				and(outs...), nw, old, nw))
		}
		st.heap[k] = nw
	}
	if allocs {
		na := e.s.Fresh("alloc", "Int")
		e.assume(st, fmt.Sprintf("(<= %s %s)", st.alloc, na))
		st.alloc = na
	}
}


// ---------- private local cells ----------
// A local variable cell whose address never leaves the function as a value (it is only used
// for field/index addressing, loads and as the target of stores) cannot be aliased by any
// other pointer or slice (Go memory safety). Loop havoc therefore leaves such a cell
// unchanged unless the loop body stores to it directly.

func derivedOnly(v ssa.Value, seen map[ssa.Value]bool) bool {
	if seen[v] {
		return true
	}
	seen[v] = true
	refs := v.Referrers()
	if refs == nil {
		return false
	}
	for _, r := range *refs {
		switch x := r.(type) {
		case *ssa.FieldAddr:
			if x.X != v || !derivedOnly(x, seen) {
				return false
			}
		case *ssa.IndexAddr:
			if x.X != v || !derivedOnly(x, seen) {
				return false
			}
		case *ssa.UnOp:
			if x.Op != token.MUL {
				return false
			}
		case *ssa.Store:
			if x.Val == v {
				return false
			}
		case *ssa.DebugRef:
		default:
			return false
		}
	}
	return true
}

func (e *Enc) isPrivateAlloc(a *ssa.Alloc) bool {
	if e.privMemo == nil {
		e.privMemo = map[*ssa.Alloc]bool{}
	}
	if v, ok := e.privMemo[a]; ok {
		return v
	}
	v := derivedOnly(a, map[ssa.Value]bool{})
	e.privMemo[a] = v
	return v
}


// privateCells returns address ranges (addr, size) of private cells allocated before the loop
// and not stored to inside it, restricted to cells that have a leaf in component comp.
func (e *Enc) privateCells(fr *Frame, li *loopInfo) []*ssa.Alloc {
	written := map[*ssa.Alloc]bool{}
	inLoop := map[*ssa.Alloc]bool{}
	for b := range li.body {
		for _, in := range b.Instrs {
			switch x := in.(type) {
			case *ssa.Store:
				if a := rootAlloc(x.Addr); a != nil {
					written[a] = true
				}
			case *ssa.Alloc:
				inLoop[x] = true
			}
		}
	}
	var out []*ssa.Alloc
	for _, b := range fr.fn.Blocks {
		for _, in := range b.Instrs {
			a, ok := in.(*ssa.Alloc)
			if !ok || written[a] || inLoop[a] {
				continue
			}
			if _, has := fr.vals[a]; !has {
				continue
			}
			if !e.isPrivateAlloc(a) {
				continue
			}
			out = append(out, a)
		}
	}
	return out
}

func (e *Enc) havocAll(st *State) {
	var ks []string
	for k := range e.compSort {
		ks = append(ks, k)
	}
	sort.Strings(ks)
	for _, k := range ks {
		if strings.HasPrefix(k, "K:") { // constant components
			continue
		}
		st.heap[k] = e.s.Fresh(sym("h."+k), e.compSort[k])
	}
	na := e.s.Fresh("alloc", "Int")
	e.assume(st, fmt.Sprintf("(<= %s %s)", st.alloc, na))
	st.alloc = na
	e.note("havoc-all used (uncontracted effectful call)")
}

// rootAlloc follows FieldAddr/IndexAddr chains to a local allocation.
func rootAlloc(v ssa.Value) *ssa.Alloc {
	for {
		switch x := v.(type) {
		case *ssa.Alloc:
			return x
		case *ssa.FieldAddr:
			v = x.X
		case *ssa.IndexAddr:
			if !isPointer(x.X.Type()) {
				return nil
			}
			v = x.X
		default:
			return nil
		}
	}
}

// writeSet: components possibly written by an instruction (syntactic over-approximation)
func (e *Enc) writeSet(fr *Frame, li *loopInfo, st *State, instr ssa.Instruction, ws WS, allocs *bool, all *bool, depth int) {
	addLeaves := func(t types.Type, ctx string, lo, n string) {
		var lvs []leaf
		e.memLeaves(t, ctx, &lvs)
		for _, lf := range lvs {
			if lo == "" {
				ws.whole(lf.suffix, lf.sort)
			} else {
				ws.rng(lf.suffix, lf.sort, lo, n)
			}
		}
	}
	localRange := func(addr ssa.Value) (string, string) {
		a := rootAlloc(addr)
		if a == nil {
			return "", ""
		}
		if depth > 0 || li.body[a.Block()] {
			return "fresh", ""
		}
		if v, ok := fr.vals[a]; ok {
			return v.term(), fmt.Sprintf("%d", sizeOf(derefType(a.Type())))
		}
		return "", ""
	}
	switch x := instr.(type) {
	case *ssa.Store:
		t := derefType(x.Addr.Type())
		lo, n := localRange(x.Addr)
		addLeaves(t, e.staticComp(x.Addr), lo, n)
	case *ssa.Alloc, *ssa.MakeSlice, *ssa.MakeMap, *ssa.MakeInterface, *ssa.MakeClosure, *ssa.MakeChan:
		*allocs = true
		if a, ok := x.(*ssa.Alloc); ok {
			addLeaves(derefType(a.Type()), "", "fresh", "")
		}
		if m, ok := x.(*ssa.MakeSlice); ok {
			addLeaves(elemType(m.Type()), "", "fresh", "")
		}
		if m, ok := x.(*ssa.MakeMap); ok {
			e.mapWriteSet(m.Type().Underlying().(*types.Map), ws, true)
		}
		if _, ok := x.(*ssa.MakeChan); ok {
			ws.rng("CH:len", "(Array Int Int)", "fresh", "")
			ws.rng("CH:cap", "(Array Int Int)", "fresh", "")
		}
		if m, ok := x.(*ssa.MakeInterface); ok {
			if k := kindOf(m.X.Type()); k != KInt && k != KBool {
				addLeaves(m.X.Type(), "", "fresh", "")
			}
		}
	case *ssa.MapUpdate:
		e.mapWriteSet(x.Map.Type().Underlying().(*types.Map), ws, false)
	case *ssa.Next:
		if !x.IsString {
			if r, ok := x.Iter.(*ssa.Range); ok {
				mt := r.X.Type().Underlying().(*types.Map)
				cn, cs := itComp(e.mapInfo(mt), r)
				ws.whole(cn, cs)
				ws.whole(cn+"#steps", "Int")
			}
		}
	case *ssa.Range:
		*allocs = true
		if mt, ok := x.X.Type().Underlying().(*types.Map); ok {
			cn, cs := itComp(e.mapInfo(mt), x)
			ws.whole(cn, cs)
			ws.whole(cn+"#steps", "Int")
			ws.whole(cn+"#dom0", cs)
		}
	case *ssa.Select:
		ws.whole("CH:len", "(Array Int Int)")
	case ssa.CallInstruction:
		if _, isGo := x.(*ssa.Go); isGo && !e.forkjoin {
			return
		}
		e.callWriteSet(fr, li, st, x.Common(), ws, allocs, all, depth)
	}
}

func (e *Enc) mapWriteSet(mt *types.Map, ws WS, freshOnly bool) {
	mk := typeKey(mt)
	ks := e.mapKeySorts(mt)
	add := func(c, s string) {
		if freshOnly {
			ws.rng(c, s, "fresh", "")
		} else {
			ws.whole(c, s)
		}
	}
	add("MD:"+mk, "(Array Int "+nestArr(ks, "Bool")+")")
	add("ML:"+mk, "(Array Int Int)")
	for _, lf := range e.mapValLeaves(mt) {
		add("MV:"+mk+lf.suffix, "(Array Int "+nestArr(ks, lf.sort)+")")
	}
}

// staticComp: the static field component of a pointer-to-leaf value, derived from its def.
func (e *Enc) staticComp(v ssa.Value) string {
	switch x := v.(type) {
	case *ssa.FieldAddr:
		st := derefType(x.X.Type()).Underlying().(*types.Struct)
		ft := st.Field(x.Field).Type()
		if k := kindOf(ft); k == KStruct {
			if _, isArr := ft.Underlying().(*types.Array); isArr {
				return "F:" + structKey(derefType(x.X.Type())) + "." + st.Field(x.Field).Name()
			}
			return ""
		}
		return "F:" + structKey(derefType(x.X.Type())) + "." + st.Field(x.Field).Name()
	case *ssa.IndexAddr:
		if isPointer(x.X.Type()) {
			// pointer to array: inherits the array's context
			et := elemType(x.X.Type())
			if kindOf(et) == KStruct {
				if _, isArr := et.Underlying().(*types.Array); !isArr {
					return ""
				}
			}
			return e.staticComp(x.X)
		}
		return ""
	}
	return ""
}

// callRec: one call of an interface method that was answered by its contract.
type callRec struct {
	iface  types.Type // static interface type of the receiver
	method string
	reach  string // path condition at the call
	res    *Val
	sig    *types.Signature
}
