package main

// SMT layer: a script is a set of named zero-arity symbols (free or defined) plus
// facts attached to symbols. Each obligation is emitted as its own query containing
// only the cone of influence of the goal.

import (
	"bytes"
	"context"
	"fmt"
	"os"
	"os/exec"
	"sort"
	"strings"
	"time"
)

type Def struct {
	Name  string
	Sort  string
	Body  string   // "" => free constant
	Facts []string // assertions emitted whenever the symbol is in the cone
	deps  []string
	fdeps []string
	order int
}

type Script struct {
	Q      map[string]bool // array symbols whose definition involves quantified facts
	defs   map[string]*Def
	n      int
	Axioms []string // global prelude (function decls, axioms)
}

func NewScript() *Script { return &Script{defs: map[string]*Def{}, Q: map[string]bool{}} }

func isSymChar(c byte) bool {
	return c == '_' || c == '$' || c == '@' || c == '.' || c == '!' ||
		(c >= 'a' && c <= 'z') || (c >= 'A' && c <= 'Z') || (c >= '0' && c <= '9')
}

// symbols referenced by a term (those that are known defs)
func (s *Script) symsOf(t string) []string {
	var out []string
	seen := map[string]bool{}
	i := 0
	for i < len(t) {
		c := t[i]
		if c == '|' {
			j := strings.IndexByte(t[i+1:], '|')
			if j < 0 {
				break
			}
			name := t[i : i+j+2]
			if _, ok := s.defs[name]; ok && !seen[name] {
				seen[name] = true
				out = append(out, name)
			}
			i += j + 2
			continue
		}
		if isSymChar(c) {
			j := i
			for j < len(t) && isSymChar(t[j]) {
				j++
			}
			name := t[i:j]
			if _, ok := s.defs[name]; ok && !seen[name] {
				seen[name] = true
				out = append(out, name)
			}
			i = j
			continue
		}
		i++
	}
	return out
}

func (s *Script) Declare(name, sort string) string {
	if d, ok := s.defs[name]; ok {
		if d.Sort != sort {
			panic(fmt.Sprintf("redeclare %s: %s vs %s", name, d.Sort, sort))
		}
		return name
	}
	s.n++
	s.defs[name] = &Def{Name: name, Sort: sort, order: s.n}
	return name
}

func (s *Script) Define(name, sort, body string) string {
	if _, ok := s.defs[name]; ok {
		panic("redefine " + name)
	}
	s.n++
	d := &Def{Name: name, Sort: sort, Body: body, order: s.n}
	d.deps = s.symsOf(body)
	s.defs[name] = d
	return name
}

func (s *Script) AddFact(name, fact string) {
	d := s.defs[name]
	if d == nil {
		panic("fact on unknown symbol " + name)
	}
	d.Facts = append(d.Facts, fact)
	d.fdeps = append(d.fdeps, s.symsOf(fact)...)
	if strings.Contains(fact, "(forall") {
		s.Q[name] = true
	}
}

func (s *Script) Fresh(prefix, sort string) string {
	s.n++
	name := sym(fmt.Sprintf("%s!%d", strings.Trim(prefix, "|"), s.n))
	s.defs[name] = &Def{Name: name, Sort: sort, order: s.n}
	return name
}

func (s *Script) FreshDef(prefix, sort, body string) string {
	s.n++
	name := sym(fmt.Sprintf("%s!%d", strings.Trim(prefix, "|"), s.n))
	d := &Def{Name: name, Sort: sort, Body: body, order: s.n}
	d.deps = s.symsOf(body)
	s.defs[name] = d
	if strings.HasPrefix(sort, "(Array") {
		for _, x := range d.deps {
			if s.Q[x] {
				s.Q[name] = true
			}
		}
	}
	return name
}

// Query builds the SMT-LIB text for: hyps ∧ ¬goal (goal may be "" meaning just hyps).
func (s *Script) Query(hyps []string, goal string, wantModel []string) string {
	var roots []string
	for _, h := range hyps {
		roots = append(roots, s.symsOf(h)...)
	}
	if goal != "" {
		roots = append(roots, s.symsOf(goal)...)
	}
	in := map[string]bool{}
	var stack []string
	push := func(n string) {
		if !in[n] {
			in[n] = true
			stack = append(stack, n)
		}
	}
	for _, r := range roots {
		push(r)
	}
	for len(stack) > 0 {
		n := stack[len(stack)-1]
		stack = stack[:len(stack)-1]
		d := s.defs[n]
		for _, x := range d.deps {
			push(x)
		}
		for _, x := range d.fdeps {
			push(x)
		}
	}
	var ds []*Def
	for n := range in {
		ds = append(ds, s.defs[n])
	}
	sort.Slice(ds, func(i, j int) bool { return ds[i].order < ds[j].order })
	var b bytes.Buffer
	for _, a := range s.Axioms {
		b.WriteString(a)
		b.WriteByte('\n')
	}
	for _, d := range ds {
		if d.Body == "" {
			fmt.Fprintf(&b, "(declare-fun %s () %s)\n", d.Name, d.Sort)
		} else {
			fmt.Fprintf(&b, "(define-fun %s () %s %s)\n", d.Name, d.Sort, d.Body)
		}
	}
	for _, d := range ds {
		for _, f := range d.Facts {
			fmt.Fprintf(&b, "(assert %s)\n", f)
		}
	}
	for _, h := range hyps {
		fmt.Fprintf(&b, "(assert %s)\n", h)
	}
	if goal != "" {
		fmt.Fprintf(&b, "(assert (not %s))\n", goal)
	}
	b.WriteString("(check-sat)\n")
	if len(wantModel) > 0 {
		fmt.Fprintf(&b, "(get-value (%s))\n", strings.Join(wantModel, " "))
	}
	return b.String()
}

// ---------- solver racing ----------

type SolveResult struct {
	Status  string // unsat | sat | unknown | timeout | error
	Backend string
	Seconds float64
	Output  string
}

type solverCfg struct {
	name string
	argv func(file string, to int, seed int) []string
	pre  func(seed int) string
}

var solvers = []solverCfg{
	{"z3-4.8.12", func(f string, to, seed int) []string {
		return []string{"/usr/bin/z3", fmt.Sprintf("-T:%d", to), fmt.Sprintf("smt.random_seed=%d", seed), fmt.Sprintf("sat.random_seed=%d", seed), f}
	}, func(seed int) string { return "" }},
	{"z3-5.1.0", func(f string, to, seed int) []string {
		return []string{"z3-new", fmt.Sprintf("-T:%d", to), fmt.Sprintf("smt.random_seed=%d", seed), fmt.Sprintf("sat.random_seed=%d", seed), f}
	}, func(seed int) string { return "" }},
	{"cvc5-1.0.3", func(f string, to, seed int) []string {
		return []string{"cvc5", "--lang=smt2", fmt.Sprintf("--tlimit=%d", to*1000), fmt.Sprintf("--seed=%d", seed), "--produce-models", f}
	}, func(seed int) string { return "(set-logic ALL)\n" }},
}

// Solve races the solvers on the query text; first unsat (or sat) wins.
func Solve(query string, timeoutSec int, seed int, tmpdir string, tag string, useSolvers []int) SolveResult {
	ctx, cancel := context.WithCancel(context.Background())
	defer cancel()
	type res struct {
		r SolveResult
	}
	ch := make(chan SolveResult, len(solvers))
	start := time.Now()
	nrun := 0
	for _, i := range useSolvers {
		sc := solvers[i]
		nrun++
		go func(sc solverCfg, idx int) {
			fn := fmt.Sprintf("%s/%s.%d.smt2", tmpdir, tag, idx)
			if err := os.WriteFile(fn, []byte(sc.pre(seed)+query), 0o644); err != nil {
				ch <- SolveResult{Status: "error", Backend: sc.name, Output: err.Error()}
				return
			}
			defer os.Remove(fn)
			argv := sc.argv(fn, timeoutSec, seed)
			c, cancel2 := context.WithTimeout(ctx, time.Duration(timeoutSec+2)*time.Second)
			defer cancel2()
			cmd := exec.CommandContext(c, argv[0], argv[1:]...)
			out, _ := cmd.CombinedOutput()
			o := string(out)
			// the verdict is the first line that is not a solver warning (z3 prints e.g.
			// "WARNING: ... 'if' cannot be used in patterns" before it)
			first := ""
			for _, ln := range strings.Split(o, "\n") {
				ln = strings.TrimSpace(ln)
				if ln == "" || strings.HasPrefix(ln, "WARNING") {
					continue
				}
				first = ln
				break
			}
			st := "unknown"
			switch {
			case first == "unsat":
				st = "unsat"
			case first == "sat":
				st = "sat"
			case strings.Contains(first, "timeout") || c.Err() != nil:
				st = "timeout"
			case strings.HasPrefix(first, "(error") || strings.Contains(o, "(error"):
				if first != "unknown" {
					st = "error"
				}
			}
			ch <- SolveResult{Status: st, Backend: sc.name, Seconds: time.Since(start).Seconds(), Output: o}
		}(sc, i)
	}
	var best SolveResult
	best.Status = "unknown"
	var outs []string
	for k := 0; k < nrun; k++ {
		r := <-ch
		if r.Status == "unsat" || r.Status == "sat" {
			cancel()
			return r
		}
		outs = append(outs, r.Backend+": "+strings.TrimSpace(firstN(r.Output, 300)))
		if best.Status == "unknown" && r.Status == "timeout" {
			best.Status = "timeout"
		}
		if r.Status == "error" && best.Status != "timeout" {
			best.Status = "error"
		}
	}
	best.Seconds = time.Since(start).Seconds()
	best.Output = strings.Join(outs, "\n")
	best.Backend = "none"
	return best
}

func firstN(s string, n int) string {
	if len(s) > n {
		return s[:n]
	}
	return s
}

// ---------- term helpers ----------

func and(ts ...string) string {
	var xs []string
	for _, t := range ts {
		if t == "true" || t == "" {
			continue
		}
		if t == "false" {
			return "false"
		}
		xs = append(xs, t)
	}
	switch len(xs) {
	case 0:
		return "true"
	case 1:
		return xs[0]
	}
	return "(and " + strings.Join(xs, " ") + ")"
}

func or(ts ...string) string {
	var xs []string
	for _, t := range ts {
		if t == "false" || t == "" {
			continue
		}
		if t == "true" {
			return "true"
		}
		xs = append(xs, t)
	}
	switch len(xs) {
	case 0:
		return "false"
	case 1:
		return xs[0]
	}
	return "(or " + strings.Join(xs, " ") + ")"
}

func not(t string) string {
	switch t {
	case "true":
		return "false"
	case "false":
		return "true"
	}
	return "(not " + t + ")"
}

func implies(a, b string) string {
	if a == "true" {
		return b
	}
	if a == "false" || b == "true" {
		return "true"
	}
	return "(=> " + a + " " + b + ")"
}

func ite(c, a, b string) string {
	if c == "true" {
		return a
	}
	if c == "false" {
		return b
	}
	if a == b {
		return a
	}
	return "(ite " + c + " " + a + " " + b + ")"
}

func eq(a, b string) string {
	if a == b {
		return "true"
	}
	return "(= " + a + " " + b + ")"
}

func app(op string, args ...string) string {
	return "(" + op + " " + strings.Join(args, " ") + ")"
}

func sel(a, i string) string      { return "(select " + a + " " + i + ")" }
func sto(a, i, v string) string   { return "(store " + a + " " + i + " " + v + ")" }
func num(n int64) string {
	if n < 0 {
		return fmt.Sprintf("(- %d)", -n)
	}
	return fmt.Sprintf("%d", n)
}

// ---------- hypothesis slicing ----------

func family(name string) string {
	n := strings.Trim(name, "|")
	n = strings.TrimPrefix(n, "h.")
	if i := strings.LastIndex(n, "!"); i >= 0 {
		n = n[:i]
	}
	n = strings.TrimSuffix(n, "@0")
	return n
}

// array families mentioned in the definitional cone of the given terms
func (s *Script) coneFamilies(terms []string, into map[string]bool, seen map[string]bool) {
	var stack []string
	for _, t := range terms {
		for _, x := range s.symsOf(t) {
			if !seen[x] {
				seen[x] = true
				stack = append(stack, x)
			}
		}
	}
	for len(stack) > 0 {
		n := stack[len(stack)-1]
		stack = stack[:len(stack)-1]
		d := s.defs[n]
		if strings.HasPrefix(d.Sort, "(Array") {
			into[family(n)] = true
		}
		for _, x := range d.deps {
			if !seen[x] {
				seen[x] = true
				stack = append(stack, x)
			}
		}
		for _, x := range d.fdeps {
			if !seen[x] {
				seen[x] = true
				stack = append(stack, x)
			}
		}
	}
}

func (s *Script) directFamilies(t string) []string {
	var out []string
	for _, x := range s.symsOf(t) {
		if strings.HasPrefix(s.defs[x].Sort, "(Array") {
			out = append(out, family(x))
		}
	}
	return out
}

func (s *Script) sliceFacts(hyp, goal string, facts []factRec) []factRec {
	R := map[string]bool{}
	seen := map[string]bool{}
	s.coneFamilies([]string{hyp, goal}, R, seen)
	dfs := make([][]string, len(facts))
	for i, f := range facts {
		dfs[i] = s.directFamilies(f.f)
	}
	kept := make([]bool, len(facts))
	changed := true
	for changed {
		changed = false
		for i, f := range facts {
			if kept[i] {
				continue
			}
			ok := true
			for _, fam := range dfs[i] {
				if !R[fam] {
					ok = false
					break
				}
			}
			if ok {
				kept[i] = true
				changed = true
				s.coneFamilies([]string{f.f, f.guard}, R, seen)
			}
		}
	}
	var out []factRec
	for i, f := range facts {
		if kept[i] {
			out = append(out, f)
		}
	}
	return out
}

// constVal folds a term to an integer constant when it is a literal, a defined symbol whose body
// folds, or a sum/difference of such terms.
func (s *Script) constVal(t string) (int64, bool) {
	t = strings.TrimSpace(t)
	if t == "" {
		return 0, false
	}
	if isLiteral(t) {
		if len(t) > 18 {
			return 0, false
		}
		return int64(atoi(t)), true
	}
	if d, ok := s.defs[t]; ok {
		if d.Body == "" {
			return 0, false
		}
		return s.constVal(d.Body)
	}
	args, op := sexprArgs(t)
	if (op == "+" || op == "-") && len(args) >= 1 {
		acc, ok := s.constVal(args[0])
		if !ok {
			return 0, false
		}
		if op == "-" && len(args) == 1 {
			return -acc, true
		}
		for _, a := range args[1:] {
			v, ok := s.constVal(a)
			if !ok {
				return 0, false
			}
			if op == "+" {
				acc += v
			} else {
				acc -= v
			}
		}
		return acc, true
	}
	return 0, false
}
