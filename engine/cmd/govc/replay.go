package main

// Replay of counterexamples: a `sat` answer for a post / bounds / nil obligation carries a
// model of the function's entry state. The replayer reads the entry values of the receiver
// and parameters back from the solver (following pointers, slices and maps through the
// entry-state heap components), generates an in-package Go test that builds those inputs as
// real values, calls the REAL function, and evaluates the failed clause on the real result
// (a reflective evaluator, replayrt/rt.go.txt). The test is injected with `go test -overlay`
// and never written into the repository. Only a confirmed replay removes the
// no-failing-input-found suffix from the VIOLATION line.

import (
	"bufio"
	"bytes"
	_ "embed"
	"encoding/json"
	"fmt"
	"go/types"
	"io"
	"math/big"
	"os"
	"os/exec"
	"path/filepath"
	"regexp"
	"sort"
	"strings"
	"time"

	"golang.org/x/tools/go/ssa"
)

//go:embed replayrt/rt.go.txt
var replayRT string

// ---------- model session (interactive solver) ----------

type modelSession struct {
	cmd  *exec.Cmd
	in   io.WriteCloser
	out  *bufio.Reader
	syms map[string]bool
}

var declRe = regexp.MustCompile(`(?m)^\((?:declare|define)-fun (\|[^|]*\||\S+) `)

func startModelSession(query string, timeoutSec int) (*modelSession, error) {
	i := strings.LastIndex(query, "(check-sat)")
	if i < 0 {
		return nil, fmt.Errorf("no check-sat in query")
	}
	body := query[:i]
	syms := map[string]bool{}
	for _, m := range declRe.FindAllStringSubmatch(body, -1) {
		syms[m[1]] = true
	}
	var lastErr error
	for _, bin := range []string{"z3-new", "/usr/bin/z3"} {
		cmd := exec.Command(bin, "-in", fmt.Sprintf("-T:%d", timeoutSec+60), "model.completion=true")
		in, _ := cmd.StdinPipe()
		outp, _ := cmd.StdoutPipe()
		cmd.Stderr = nil
		if err := cmd.Start(); err != nil {
			lastErr = err
			continue
		}
		ms := &modelSession{cmd: cmd, in: in, out: bufio.NewReaderSize(outp, 1<<20), syms: syms}
		io.WriteString(in, body)
		io.WriteString(in, "(check-sat)\n")
		line, err := ms.readLineTimeout(time.Duration(timeoutSec) * time.Second)
		if err == nil && strings.TrimSpace(line) == "sat" {
			return ms, nil
		}
		lastErr = fmt.Errorf("%s answered %q (%v)", bin, strings.TrimSpace(line), err)
		ms.close()
	}
	return nil, lastErr
}

func (ms *modelSession) close() {
	if ms.cmd != nil && ms.cmd.Process != nil {
		ms.in.Close()
		ms.cmd.Process.Kill()
		ms.cmd.Wait()
	}
}

func (ms *modelSession) readLineTimeout(d time.Duration) (string, error) {
	type r struct {
		s   string
		err error
	}
	ch := make(chan r, 1)
	go func() {
		s, err := ms.out.ReadString('\n')
		ch <- r{s, err}
	}()
	select {
	case x := <-ch:
		return x.s, x.err
	case <-time.After(d):
		return "", fmt.Errorf("timeout")
	}
}

// readSexpr reads one balanced s-expression (or an atom line) from the solver.
func (ms *modelSession) readSexpr() (string, error) {
	var b bytes.Buffer
	depth := 0
	started := false
	inBar := false
	deadline := time.After(20 * time.Second)
	for {
		type r struct {
			c   byte
			err error
		}
		ch := make(chan r, 1)
		go func() {
			c, err := ms.out.ReadByte()
			ch <- r{c, err}
		}()
		var x r
		select {
		case x = <-ch:
		case <-deadline:
			return "", fmt.Errorf("timeout reading solver output")
		}
		if x.err != nil {
			return b.String(), x.err
		}
		c := x.c
		b.WriteByte(c)
		if c == '|' {
			inBar = !inBar
		}
		if inBar {
			continue
		}
		if c == '(' {
			depth++
			started = true
		} else if c == ')' {
			depth--
			if started && depth == 0 {
				return b.String(), nil
			}
		} else if c == '\n' && !started && strings.TrimSpace(b.String()) != "" {
			return b.String(), nil
		}
	}
}

// refine asks for a model that also satisfies the extra constraints; it keeps the old model
// (re-established by a second check-sat) when there is none.
func (ms *modelSession) refine(constraints []string) bool {
	fmt.Fprintf(ms.in, "(push 1)\n")
	for _, c := range constraints {
		fmt.Fprintf(ms.in, "(assert %s)\n", c)
	}
	fmt.Fprintf(ms.in, "(check-sat)\n")
	readAns := func(d time.Duration) string {
		for i := 0; i < 8; i++ {
			line, err := ms.readLineTimeout(d)
			if err != nil {
				return ""
			}
			if t := strings.TrimSpace(line); t != "" {
				return t
			}
		}
		return ""
	}
	if readAns(20*time.Second) == "sat" {
		return true
	}
	fmt.Fprintf(ms.in, "(pop 1)\n(check-sat)\n")
	readAns(30 * time.Second)
	return false
}

// evalTerm returns the model value text of term.
func (ms *modelSession) evalTerm(term string) (string, error) {
	fmt.Fprintf(ms.in, "(get-value (%s))\n", term)
	s, err := ms.readSexpr()
	if err != nil {
		return "", err
	}
	s = strings.TrimSpace(s)
	if strings.HasPrefix(s, "(error") {
		return "", fmt.Errorf("%s", s)
	}
	// ((term value)) : strip the outer parens and the echoed term
	if !strings.HasPrefix(s, "((") {
		return "", fmt.Errorf("unexpected get-value answer %q", firstN(s, 200))
	}
	inner := strings.TrimSpace(s[1 : len(s)-1]) // (term value)
	inner = strings.TrimSpace(inner[1 : len(inner)-1])
	// skip one s-expression (the term)
	j := skipSexpr(inner, 0)
	return strings.TrimSpace(inner[j:]), nil
}

func skipSexpr(s string, i int) int {
	for i < len(s) && (s[i] == ' ' || s[i] == '\n' || s[i] == '\t') {
		i++
	}
	if i >= len(s) {
		return i
	}
	if s[i] == '(' {
		d := 0
		inBar := false
		for ; i < len(s); i++ {
			if s[i] == '|' {
				inBar = !inBar
			}
			if inBar {
				continue
			}
			if s[i] == '(' {
				d++
			} else if s[i] == ')' {
				d--
				if d == 0 {
					return i + 1
				}
			}
		}
		return i
	}
	if s[i] == '|' {
		j := strings.IndexByte(s[i+1:], '|')
		return i + j + 2
	}
	for i < len(s) && s[i] != ' ' && s[i] != '\n' && s[i] != ')' {
		i++
	}
	return i
}

var intValRe = regexp.MustCompile(`^\(-\s*(\d+)\)$`)

func parseIntVal(s string) (*big.Int, bool) {
	s = strings.TrimSpace(s)
	if m := intValRe.FindStringSubmatch(s); m != nil {
		z, ok := new(big.Int).SetString(m[1], 10)
		if !ok {
			return nil, false
		}
		return z.Neg(z), true
	}
	z, ok := new(big.Int).SetString(s, 10)
	return z, ok
}

// ---------- input builder ----------

type rbuilder struct {
	e       *Enc
	w       *World
	ms      *modelSession
	pkg     *types.Package
	imports map[string]string // path -> alias
	decls   []string
	fills   []string
	objs    map[string]string
	slices  []rslice
	n       int
	st0     *State
	approx  []string
	typeByID map[int]types.Type
	gByAddr  map[string]*ssa.Global
	strByID  map[string]string
	refined  bool
	pins     []string // address terms pinned to their model values when asking for a smaller model
	sizeTerms []string // terms denoting slice lengths / capacities and map lengths met while building
	stubs    map[string]types.Type // stub type name -> interface type
	stubOrder []string
}

type rslice struct {
	et       types.Type
	base     *big.Int
	capN     int64
	name     string
}

type rfail struct{ msg string }

func (b *rbuilder) fail(f string, a ...interface{}) { panic(rfail{fmt.Sprintf(f, a...)}) }

func (b *rbuilder) qual(p *types.Package) string {
	if p == nil || p == b.pkg {
		return ""
	}
	if a, ok := b.imports[p.Path()]; ok {
		return a
	}
	a := "rp_" + regexp.MustCompile(`[^A-Za-z0-9_]`).ReplaceAllString(p.Name(), "_")
	for _, x := range b.imports {
		if x == a {
			a = fmt.Sprintf("%s%d", a, len(b.imports))
		}
	}
	b.imports[p.Path()] = a
	return a
}

func (b *rbuilder) typeStr(t types.Type) string {
	if !b.nameable(t, 0) {
		b.fail("type %s cannot be named from the package under test", t)
	}
	return types.TypeString(t, b.qual)
}

// nameable: can the type be written in a test file of the package?
func (b *rbuilder) nameable(t types.Type, d int) bool {
	if d > 8 {
		return true
	}
	switch u := t.(type) {
	case *types.Named:
		o := u.Obj()
		if o.Pkg() != nil && o.Pkg() != b.pkg && !o.Exported() {
			return false
		}
		if o.Pkg() != nil && o.Pkg() != b.pkg && strings.Contains(o.Pkg().Path(), "/internal/") &&
			!strings.HasPrefix(o.Pkg().Path(), modPath) {
			return false
		}
		if ta := u.TypeArgs(); ta != nil {
			for i := 0; i < ta.Len(); i++ {
				if !b.nameable(ta.At(i), d+1) {
					return false
				}
			}
		}
		return true
	case *types.Pointer:
		return b.nameable(u.Elem(), d+1)
	case *types.Slice:
		return b.nameable(u.Elem(), d+1)
	case *types.Array:
		return b.nameable(u.Elem(), d+1)
	case *types.Map:
		return b.nameable(u.Key(), d+1) && b.nameable(u.Elem(), d+1)
	case *types.Chan:
		return b.nameable(u.Elem(), d+1)
	case *types.TypeParam:
		return false
	}
	return true
}

func (b *rbuilder) relevant(term string) bool {
	for _, s := range b.e.s.symsOf(term) {
		if !b.ms.syms[s] {
			return false
		}
	}
	return true
}

func (b *rbuilder) evalInt(term string) *big.Int {
	if isLiteral(term) {
		z, _ := new(big.Int).SetString(term, 10)
		return z
	}
	if !b.relevant(term) {
		return big.NewInt(0)
	}
	v, err := b.ms.evalTerm(term)
	if err != nil {
		b.fail("model evaluation failed: %v", err)
	}
	z, ok := parseIntVal(v)
	if !ok {
		b.fail("unexpected integer value %q", firstN(v, 80))
	}
	return z
}

func (b *rbuilder) evalBool(term string) bool {
	if term == "true" {
		return true
	}
	if term == "false" {
		return false
	}
	if !b.relevant(term) {
		return false
	}
	v, err := b.ms.evalTerm(term)
	if err != nil {
		b.fail("model evaluation failed: %v", err)
	}
	return strings.TrimSpace(v) == "true"
}

func (b *rbuilder) pin(term string, val *big.Int) {
	if isLiteral(term) || !b.relevant(term) {
		return
	}
	v := val.String()
	if val.Sign() < 0 {
		v = "(- " + new(big.Int).Neg(val).String() + ")"
	}
	b.pins = append(b.pins, fmt.Sprintf("(= %s %s)", term, v))
}

func (b *rbuilder) fresh(prefix string) string {
	b.n++
	if b.n > 400 {
		b.fail("too many objects in the model")
	}
	return fmt.Sprintf("%s%d", prefix, b.n)
}

func fieldAccessible(pkg *types.Package, st *types.Struct, i int, owner types.Type) bool {
	f := st.Field(i)
	if f.Name() == "_" {
		return false
	}
	if f.Exported() {
		return true
	}
	return f.Pkg() == pkg
}

// assign emits statements that make lhs (of Go type t) hold the model value v.
func (b *rbuilder) assign(lhs string, v *Val, t types.Type, depth int) {
	if depth > 12 {
		b.fail("object graph too deep")
	}
	switch u := t.Underlying().(type) {
	case *types.Struct:
		for i := 0; i < u.NumFields(); i++ {
			if !fieldAccessible(b.pkg, u, i, t) {
				if u.Field(i).Name() != "_" {
					b.approx = append(b.approx, fmt.Sprintf("unexported field %s.%s left zero", t, u.Field(i).Name()))
				}
				continue
			}
			b.assign(lhs+"."+u.Field(i).Name(), v.F[i], u.Field(i).Type(), depth+1)
		}
		return
	case *types.Array:
		if u.Len() > maxArrayVal {
			return
		}
		for i := int64(0); i < u.Len(); i++ {
			b.assign(fmt.Sprintf("%s[%d]", lhs, i), v.F[i], u.Elem(), depth+1)
		}
		return
	}
	x := b.valExpr(v, t, depth)
	if x == "" {
		return
	}
	b.fills = append(b.fills, lhs+" = "+x)
}

// valExpr returns a Go expression for a non-composite model value ("" = leave zero).
func (b *rbuilder) valExpr(v *Val, t types.Type, depth int) string {
	switch v.K {
	case KBool:
		if !b.evalBool(v.S[0]) {
			return ""
		}
		if _, isNamed := t.(*types.Named); isNamed {
			return b.typeStr(t) + "(true)"
		}
		return "true"
	case KSlice:
		return b.sliceExpr(v, t, depth)
	case KIface:
		return b.ifaceExpr(v, t, depth)
	case KInt:
		switch u := t.Underlying().(type) {
		case *types.Pointer:
			a := b.evalInt(v.S[0])
			b.pin(v.S[0], a)
			if a.Sign() == 0 {
				return ""
			}
			return b.obj(u.Elem(), a, v.Comp, depth)
		case *types.Map:
			a := b.evalInt(v.S[0])
			b.pin(v.S[0], a)
			if a.Sign() == 0 {
				return ""
			}
			return b.mapObj(t, u, a, depth, v.S[0])
		case *types.Chan, *types.Signature:
			return ""
		case *types.Basic:
			if u.Kind() == types.UnsafePointer {
				return ""
			}
			if isString(t) {
				id := b.evalInt(v.S[0]).String()
				if id == "0" {
					return ""
				}
				s, ok := b.strByID[id]
				if !ok {
					s = "s" + id
				}
				return fmt.Sprintf("%s(%q)", b.typeStr(t), s)
			}
			if isFloat(t) {
				return ""
			}
			z := b.evalInt(v.S[0])
			if z.Sign() == 0 {
				return ""
			}
			return fmt.Sprintf("%s(%s)", b.typeStr(t), z.String())
		}
		return ""
	}
	return ""
}

func (b *rbuilder) obj(et types.Type, addr *big.Int, comp string, depth int) string {
	key := "o:" + typeKey(et) + "@" + addr.String()
	if n, ok := b.objs[key]; ok {
		return n
	}
	name := b.fresh("o")
	b.objs[key] = name
	b.decls = append(b.decls, fmt.Sprintf("%s := new(%s)", name, b.typeStr(et)))
	v := b.e.loadAt(b.st0, addr.String(), et, comp)
	switch et.Underlying().(type) {
	case *types.Struct:
		b.assign(name, v, et, depth+1)
	default:
		b.assign("(*"+name+")", v, et, depth+1)
	}
	return name
}

func (b *rbuilder) sliceExpr(v *Val, t types.Type, depth int) string {
	if b.relevant(v.S[1]) && !isLiteral(v.S[1]) {
		b.sizeTerms = append(b.sizeTerms, v.S[1])
	}
	ptr := b.evalInt(v.S[0])
	b.pin(v.S[0], ptr)
	ln := b.evalInt(v.S[1])
	cp := b.evalInt(v.S[2])
	if ln.Sign() == 0 && cp.Sign() == 0 {
		return ""
	}
	if !ln.IsInt64() || ln.Int64() < 0 || ln.Int64() > 4096 {
		b.fail("slice of length %s is too large to build", ln)
	}
	if !cp.IsInt64() || cp.Int64() > 1<<12 {
		// capacities are unconstrained in most models; a smaller real capacity only changes
		// whether append reallocates, and the verdict is taken from the real run anyway
		b.approx = append(b.approx, fmt.Sprintf("capacity %s of a %s clamped to len+8", cp, t))
		cp = big.NewInt(ln.Int64() + 8)
	}
	if cp.Int64() < ln.Int64() {
		b.fail("inconsistent slice header in the model")
	}
	et := elemType(t)
	k := sizeOf(et)
	L, C := ln.Int64(), cp.Int64()
	// inside an already built backing array?
	for _, s := range b.slices {
		if !types.Identical(s.et, et) {
			continue
		}
		off := new(big.Int).Sub(ptr, s.base)
		if off.Sign() < 0 || !off.IsInt64() || off.Int64()%k != 0 {
			continue
		}
		o := off.Int64() / k
		if o+C <= s.capN {
			return fmt.Sprintf("%s(%s[%d:%d:%d])", b.typeStr(t), s.name, o, o+L, o+C)
		}
	}
	name := b.fresh("s")
	b.slices = append(b.slices, rslice{et, ptr, C, name})
	b.decls = append(b.decls, fmt.Sprintf("%s := make([]%s, %d, %d)", name, b.typeStr(et), C, C))
	for i := int64(0); i < L; i++ {
		a := new(big.Int).Add(ptr, big.NewInt(k*i))
		ev := b.e.loadAt(b.st0, a.String(), et, "")
		b.assign(fmt.Sprintf("%s[%d]", name, i), ev, et, depth+1)
	}
	return fmt.Sprintf("%s(%s[:%d])", b.typeStr(t), name, L)
}

var numRe = regexp.MustCompile(`\d+`)

func (b *rbuilder) mapObj(t types.Type, mt *types.Map, ref *big.Int, depth int, refTerm string) string {
	key := "m:" + typeKey(t) + "@" + ref.String()
	if n, ok := b.objs[key]; ok {
		return n
	}
	name := b.fresh("m")
	b.objs[key] = name
	b.decls = append(b.decls, fmt.Sprintf("%s := make(%s)", name, b.typeStr(t)))
	mc := b.e.mapInfo(mt)
	if len(mc.ks) != 1 || mc.ks[0] != "Int" || isString(mt.Key()) {
		b.approx = append(b.approx, fmt.Sprintf("map %s with a non-integer key left empty", t))
		return name
	}
	d := b.e.comp(b.st0, mc.dom, mc.domS)
	domKnown := b.ms.syms[d]
	domT := sel(d, ref.String())
	cands := map[string]bool{}
	if domKnown {
		txt, err := b.ms.evalTerm(domT)
		if err != nil {
			b.fail("model evaluation failed: %v", err)
		}
		cands = map[string]bool{"0": true, "1": true, "2": true, "3": true}
		for _, m := range numRe.FindAllString(txt, -1) {
			cands[m] = true
		}
	}
	var keys []string
	for c := range cands {
		keys = append(keys, c)
	}
	sort.Slice(keys, func(i, j int) bool {
		a, _ := new(big.Int).SetString(keys[i], 10)
		c, _ := new(big.Int).SetString(keys[j], 10)
		return a.Cmp(c) < 0
	})
	cnt := 0
	for _, kx := range keys {
		kz, _ := new(big.Int).SetString(kx, 10)
		if !b.evalBool(sel(domT, kx)) {
			continue
		}
		// key must be in the range of the key type
		if bits, signed, ok := intInfo(mt.Key()); ok {
			lim := new(big.Int).Lsh(big.NewInt(1), uint(bits))
			if signed {
				lim.Rsh(lim, 1)
			}
			if kz.Cmp(lim) >= 0 {
				continue
			}
		}
		cnt++
		if cnt > 64 {
			b.fail("map with more than 64 keys in the model")
		}
		var terms []string
		for i, lf := range mc.vals {
			a := b.e.comp(b.st0, lf.suffix, mc.valS[i])
			terms = append(terms, sel(sel(a, ref.String()), kx))
		}
		p := 0
		val := b.e.unflatten(mt.Elem(), terms, &p)
		kexpr := fmt.Sprintf("%s(%s)", b.typeStr(mt.Key()), kx)
		switch mt.Elem().Underlying().(type) {
		case *types.Struct, *types.Array:
			tmp := b.fresh("v")
			b.decls = append(b.decls, fmt.Sprintf("var %s %s", tmp, b.typeStr(mt.Elem())))
			b.assign(tmp, val, mt.Elem(), depth+1)
			b.fills = append(b.fills, fmt.Sprintf("%s[%s] = %s", name, kexpr, tmp))
		default:
			x := b.valExpr(val, mt.Elem(), depth+1)
			if x == "" {
				tmp := b.fresh("v")
				b.decls = append(b.decls, fmt.Sprintf("var %s %s", tmp, b.typeStr(mt.Elem())))
				x = tmp
			}
			b.fills = append(b.fills, fmt.Sprintf("%s[%s] = %s", name, kexpr, x))
		}
	}
	// the model's length and its domain may disagree (the verifier relates them only through
	// the cardinality axioms); the real map has the domain's size
	ml := b.e.comp(b.st0, mc.ln, "(Array Int Int)")
	if b.ms.syms[ml] {
		if refTerm != "" && b.relevant(refTerm) {
			b.sizeTerms = append(b.sizeTerms, sel(ml, refTerm))
		} else {
			b.sizeTerms = append(b.sizeTerms, sel(ml, ref.String()))
		}
		if l := b.evalInt(sel(ml, ref.String())); !l.IsInt64() || l.Int64() != int64(cnt) {
			// the model's length exceeds the keys it determines: the remaining keys are
			// irrelevant to the verdict, pad the real map with fresh keys so that len() agrees
			if l.IsInt64() && l.Int64() > int64(cnt) && l.Int64()-int64(cnt) <= 64 {
				bits, _, okT := intInfo(mt.Key())
				base := int64(1) << 20
				if okT && bits <= 16 {
					base = 100
				}
				for i := int64(0); i < l.Int64()-int64(cnt); i++ {
					kx := fmt.Sprint(base + i)
					for cands[kx] {
						base++
						kx = fmt.Sprint(base + i)
					}
					kexpr := fmt.Sprintf("%s(%s)", b.typeStr(mt.Key()), kx)
					vexpr := ""
					if pt, isPtr := mt.Elem().Underlying().(*types.Pointer); isPtr && b.nameable(pt.Elem(), 0) {
						vexpr = "new(" + b.typeStr(pt.Elem()) + ")"
					} else {
						tmp := b.fresh("v")
						b.decls = append(b.decls, fmt.Sprintf("var %s %s", tmp, b.typeStr(mt.Elem())))
						vexpr = tmp
					}
					b.fills = append(b.fills, fmt.Sprintf("%s[%s] = %s", name, kexpr, vexpr))
				}
				b.approx = append(b.approx, fmt.Sprintf("a %s was padded with %d keys the model does not determine (model length %s, %d determined keys)", t, l.Int64()-int64(cnt), l, cnt))
			} else {
				b.approx = append(b.approx, fmt.Sprintf("model length %s of a %s differs from its %d enumerated keys", l, t, cnt))
			}
		}
	}
	return name
}

func (b *rbuilder) ifaceExpr(v *Val, t types.Type, depth int) string {
	tag := b.evalInt(v.S[0])
	if tag.Sign() == 0 {
		return ""
	}
	val := b.evalInt(v.S[1])
	isErr := types.Identical(t.Underlying(), types.Universe.Lookup("error").Type().Underlying())
	if g, ok := b.gByAddr[val.String()]; ok && isErr {
		q := b.qual(g.Pkg.Pkg)
		if q != "" {
			q += "."
		}
		if g.Object() != nil && (g.Object().Exported() || g.Pkg.Pkg == b.pkg) {
			return q + g.Name()
		}
	}
	if ct, ok := b.typeByID[int(tag.Int64())]; ok && tag.IsInt64() {
		if pt, isPtr := ct.Underlying().(*types.Pointer); isPtr && b.nameable(ct, 0) && val.Sign() != 0 {
			if _, isStruct := pt.Elem().Underlying().(*types.Struct); isStruct && types.AssignableTo(ct, t) {
				return b.obj(pt.Elem(), val, "", depth)
			}
		}
	}
	if isErr {
		b.qualImport("errors", "errors")
		return `rp_errors.New("govc-replay: some error")`
	}
	if n := b.stubFor(t); n != "" {
		return "&" + n + "{}"
	}
	b.approx = append(b.approx, fmt.Sprintf("non-nil %s value of an unknown dynamic type left nil", t))
	return ""
}

// stubFor: a generated type implementing interface t whose methods replay, in call order, the
// results the model chose for the calls of that method (scalar results only).
func (b *rbuilder) stubFor(t types.Type) string {
	it, ok := t.Underlying().(*types.Interface)
	if !ok || it.NumMethods() == 0 {
		return ""
	}
	name := "rpStub_" + regexp.MustCompile(`[^A-Za-z0-9_]`).ReplaceAllString(typeKey(t), "_")
	if _, have := b.stubs[name]; have {
		return name
	}
	for i := 0; i < it.NumMethods(); i++ {
		m := it.Method(i)
		if !m.Exported() && m.Pkg() != b.pkg {
			return ""
		}
		sig := m.Type().(*types.Signature)
		for j := 0; j < sig.Params().Len(); j++ {
			if !b.nameable(sig.Params().At(j).Type(), 0) {
				return ""
			}
		}
		for j := 0; j < sig.Results().Len(); j++ {
			if !b.nameable(sig.Results().At(j).Type(), 0) {
				return ""
			}
		}
	}
	if b.stubs == nil {
		b.stubs = map[string]types.Type{}
	}
	b.stubs[name] = t
	b.stubOrder = append(b.stubOrder, name)
	return name
}

// scalarExpr: Go expression for a scalar model value (results of stubbed calls); ok=false if
// the type cannot be produced
func (b *rbuilder) scalarExpr(v *Val, t types.Type) (string, bool) {
	switch v.K {
	case KBool:
		if b.evalBool(v.S[0]) {
			return b.typeStr(t) + "(true)", true
		}
		return b.typeStr(t) + "(false)", true
	case KIface:
		isErr := types.Identical(t.Underlying(), types.Universe.Lookup("error").Type().Underlying())
		tag := b.evalInt(v.S[0])
		if tag.Sign() == 0 {
			return "nil", true
		}
		if !isErr {
			return "", false
		}
		val := b.evalInt(v.S[1])
		if g, ok := b.gByAddr[val.String()]; ok && g.Object() != nil && (g.Object().Exported() || g.Pkg.Pkg == b.pkg) {
			q := b.qual(g.Pkg.Pkg)
			if q != "" {
				q += "."
			}
			return q + g.Name(), true
		}
		b.qualImport("errors", "errors")
		return `rp_errors.New("govc-replay: some error")`, true
	case KInt:
		switch u := t.Underlying().(type) {
		case *types.Basic:
			if u.Kind() == types.UnsafePointer || isFloat(t) {
				return "", false
			}
			if isString(t) {
				id := b.evalInt(v.S[0]).String()
				sv, ok := b.strByID[id]
				if !ok && id != "0" {
					sv = "s" + id
				}
				return fmt.Sprintf("%s(%q)", b.typeStr(t), sv), true
			}
			return fmt.Sprintf("%s(%s)", b.typeStr(t), b.evalInt(v.S[0]).String()), true
		case *types.Pointer, *types.Map, *types.Chan, *types.Signature:
			if b.evalInt(v.S[0]).Sign() == 0 {
				return "nil", true
			}
			return "", false
		}
	case KSlice:
		if b.evalInt(v.S[1]).Sign() == 0 {
			return "nil", true
		}
		return "", false
	}
	return "", false
}

// stubSource generates the stub types and the initialisation of their result queues.
func (b *rbuilder) stubSource() string {
	var src bytes.Buffer
	var init bytes.Buffer
	for _, name := range b.stubOrder {
		t := b.stubs[name]
		it := t.Underlying().(*types.Interface)
		fmt.Fprintf(&src, "\n// %s stands in for a value of interface %s whose dynamic type the model leaves open;\n// each method returns, in call order, what the model chose for that call\ntype %s struct{}\n", name, t, name)
		for i := 0; i < it.NumMethods(); i++ {
			m := it.Method(i)
			sig := m.Type().(*types.Signature)
			var ps, rs []string
			for j := 0; j < sig.Params().Len(); j++ {
				pt := sig.Params().At(j).Type()
				if sig.Variadic() && j == sig.Params().Len()-1 {
					ps = append(ps, fmt.Sprintf("p%d ...%s", j, b.typeStr(pt.(*types.Slice).Elem())))
				} else {
					ps = append(ps, fmt.Sprintf("p%d %s", j, b.typeStr(pt)))
				}
			}
			for j := 0; j < sig.Results().Len(); j++ {
				rs = append(rs, b.typeStr(sig.Results().At(j).Type()))
			}
			rsig := ""
			if len(rs) > 0 {
				rsig = " (" + strings.Join(rs, ", ") + ")"
			}
			label := fmt.Sprintf("%s.%s", t, m.Name())
			if len(rs) == 0 {
				fmt.Fprintf(&src, "func (%s) %s(%s) {}\n", name, m.Name(), strings.Join(ps, ", "))
				continue
			}
			q := fmt.Sprintf("rpQ_%s_%s", name, m.Name())
			fmt.Fprintf(&src, "var %s []func()%s\nfunc (%s) %s(%s)%s {\n\tif len(%s) == 0 {\n\t\tpanic(rpNeedsIface{%q})\n\t}\n\tf := %s[0]\n\t%s = %s[1:]\n\treturn f()\n}\n",
				q, rsig, name, m.Name(), strings.Join(ps, ", "), rsig, q, label, q, q, q)
			// the calls of this method that are executed in the model, in program order
			for _, rec := range b.e.callLog {
				if rec.method != m.Name() || !types.Identical(rec.iface, t) {
					continue
				}
				if !b.relevant(rec.reach) || !b.evalBool(rec.reach) {
					continue
				}
				var vals []*Val
				if rec.res.K == KTuple {
					vals = rec.res.F
				} else {
					vals = []*Val{rec.res}
				}
				if len(vals) != sig.Results().Len() {
					break
				}
				var xs []string
				okAll := true
				for j, v := range vals {
					x, ok := b.scalarExpr(v, sig.Results().At(j).Type())
					if !ok {
						okAll = false
						break
					}
					xs = append(xs, x)
				}
				if !okAll {
					break // later calls cannot be replayed either
				}
				fmt.Fprintf(&init, "\t%s = append(%s, func()%s { return %s })\n", q, q, rsig, strings.Join(xs, ", "))
			}
		}
	}
	fmt.Fprintf(&src, "\nfunc rpInitStubs() {\n%s}\n", init.String())
	return src.String()
}

func (b *rbuilder) qualImport(path, name string) {
	if _, ok := b.imports[path]; !ok {
		b.imports[path] = "rp_" + name
	}
}

// ---------- test generation ----------

type replayResult struct {
	Confirmed bool
	Note      string
	TestOut   string
	Source    string
	Approx    []string
}

func collectIdents(x *SExpr, out map[string]bool, sels map[string]bool) {
	if x == nil {
		return
	}
	if x.Op == "ident" {
		out[x.Name] = true
	}
	if x.Op == "sel" && len(x.Args) > 0 && x.Args[0] != nil && x.Args[0].Op == "ident" {
		sels[x.Args[0].Name+"."+x.Name] = true
	}
	for _, a := range x.Args {
		collectIdents(a, out, sels)
	}
}

func (w *World) replayObligation(rep *FuncReport, o *Obligation, root string, timeoutSec int) (res replayResult) {
	defer func() {
		if r := recover(); r != nil {
			switch x := r.(type) {
			case rfail:
				res.Note = "replay not possible: " + x.msg
			case unsupportedErr:
				res.Note = "replay not possible: " + x.msg
			case specErr:
				res.Note = "replay not possible: " + x.msg
			default:
				res.Note = fmt.Sprintf("replay not possible: internal error %v", r)
			}
		}
	}()
	e := rep.enc
	fr := rep.fr
	if e == nil || fr == nil {
		return replayResult{Note: "replay not possible: no encoder state"}
	}
	// replays of several obligations of one function share its encoder: one at a time
	e.replayMu.Lock()
	defer e.replayMu.Unlock()
	fn := fr.fn
	if o.Kind != "post" && o.Kind != "bounds" && o.Kind != "nil" {
		return replayResult{Note: "replay not attempted: obligations of kind " + o.Kind + " (inside the function body) have no observable counterpart at the function boundary"}
	}
	if o.Kind == "post" && o.Clause == nil {
		return replayResult{Note: "replay not possible: clause not recorded"}
	}
	if fn.Parent() != nil || fn.Synthetic != "" || fn.Signature.TypeParams() != nil || fn.Signature.RecvTypeParams() != nil {
		return replayResult{Note: "replay not possible: closure, synthetic or generic function"}
	}
	ms, err := startModelSession(o.Query, timeoutSec)
	if err != nil {
		return replayResult{Note: "replay not possible: no model (" + err.Error() + ")"}
	}
	defer ms.close()
	b := &rbuilder{e: e, w: w, ms: ms, pkg: fn.Pkg.Pkg, imports: map[string]string{}, objs: map[string]string{},
		st0: &State{reach: "true", heap: map[string]string{}, alloc: "0"}, typeByID: map[int]types.Type{}, gByAddr: map[string]*ssa.Global{}, strByID: map[string]string{}}
	for k, id := range w.typeIDs {
		if t := w.typeByKey[k]; t != nil {
			b.typeByID[id] = t
		}
	}
	for g, a := range w.gaddr {
		b.gByAddr[a] = g
	}
	for s, id := range e.strIDs {
		b.strByID[fmt.Sprint(id)] = s
	}
	// inputs
	var names []string
	var fields []string
	recvName := ""
	if fn.Signature.Recv() != nil && rep.contract != nil {
		recvName = rep.contract.recvName
	}
	for i, p := range fn.Params {
		fields = append(fields, fmt.Sprintf("p%d %s", i, b.typeStr(p.Type())))
		n := p.Name()
		if i == 0 && fn.Signature.Recv() != nil && recvName != "" {
			n = recvName
		}
		names = append(names, n)
		b.assign(fmt.Sprintf("in.p%d", i), fr.vals[p], p.Type(), 0)
	}
	// prefer a small model: bound every length met while building and rebuild
	if len(b.sizeTerms) > 0 && !b.refined {
		var cs []string
		seenT := map[string]bool{}
		for _, t := range b.sizeTerms {
			if !seenT[t] {
				seenT[t] = true
				cs = append(cs, fmt.Sprintf("(<= %s 6)", t))
			}
		}
		okRef := ms.refine(append(cs, b.pins...))
		if os.Getenv("GOVC_REPLAY_DEBUG") != "" {
			fmt.Fprintf(os.Stderr, "replay-debug: refine(%v) = %v\n", cs, okRef)
		}
		if okRef {
			nb := &rbuilder{e: e, w: w, ms: ms, pkg: b.pkg, imports: map[string]string{}, objs: map[string]string{},
				st0: b.st0, typeByID: b.typeByID, gByAddr: b.gByAddr, strByID: b.strByID, refined: true}
			for i, p := range fn.Params {
				nb.assign(fmt.Sprintf("in.p%d", i), fr.vals[p], p.Type(), 0)
			}
			// type strings of the parameters must be registered with the new builder's imports
			for _, p := range fn.Params {
				nb.typeStr(p.Type())
			}
			b = nb
		}
	}
	if o.Kind != "post" && len(b.approx) > 0 {
		return replayResult{Note: "replay not attempted: the input could only be built approximately (" + b.approx[0] + ")", Approx: b.approx}
	}
	// spec functions, clause, requires
	pkgPath := funcPkgPath(fn)
	var preds []map[string]interface{}
	idents := map[string]bool{}
	sels := map[string]bool{}
	for k, pf := range w.cs.Pures {
		if !strings.HasPrefix(k, pkgPath+"::") {
			continue
		}
		preds = append(preds, map[string]interface{}{"Name": pf.Name, "Recv": pf.Recv, "RecvTyp": pf.RecvTyp, "Params": pf.Params, "Body": pf.Body})
		collectIdents(pf.Body, idents, sels)
	}
	predJS, _ := json.Marshal(preds)
	clauseJS := []byte("")
	if o.Clause != nil {
		clauseJS, _ = json.Marshal(o.Clause)
		collectIdents(o.Clause, idents, sels)
	}
	var reqJS []string
	if rep.contract != nil {
		for _, r := range rep.contract.Requires {
			j, _ := json.Marshal(r.E)
			reqJS = append(reqJS, string(j))
			collectIdents(r.E, idents, sels)
		}
	}
	// package-level names used by the clauses
	var globals []string
	tp := fn.Pkg.Pkg
	isParam := map[string]bool{}
	for _, n := range names {
		isParam[n] = true
	}
	var idl []string
	for n := range idents {
		idl = append(idl, n)
	}
	sort.Strings(idl)
	for _, n := range idl {
		if isParam[n] {
			continue
		}
		obj := tp.Scope().Lookup(n)
		switch obj.(type) {
		case *types.Var, *types.Const:
			globals = append(globals, fmt.Sprintf("%q: %s", n, n))
		}
	}
	env := &SpecEnv{e: e, pkg: pkgPath}
	var sl []string
	for s := range sels {
		sl = append(sl, s)
	}
	sort.Strings(sl)
	for _, s := range sl {
		i := strings.Index(s, ".")
		alias, name := s[:i], s[i+1:]
		if isParam[alias] || tp.Scope().Lookup(alias) != nil {
			continue
		}
		pp := env.importedPkg(alias)
		if pp == "" {
			continue
		}
		ip := w.typesPkg(pp)
		if ip == nil {
			continue
		}
		obj := ip.Scope().Lookup(name)
		if obj == nil || !obj.Exported() {
			continue
		}
		switch obj.(type) {
		case *types.Var, *types.Const:
			globals = append(globals, fmt.Sprintf("%q: %s.%s", "$g:"+s, b.qual(ip), name))
		}
	}
	// call expression
	var args []string
	for i := range fn.Params {
		a := fmt.Sprintf("c.p%d", i)
		if fn.Signature.Variadic() && i == len(fn.Params)-1 {
			a += "..."
		}
		args = append(args, a)
	}
	callee := fn.Name()
	if fn.Signature.Recv() != nil {
		callee = args[0] + "." + fn.Name()
		args = args[1:]
	}
	nres := fn.Signature.Results().Len()
	var callBody string
	if nres == 0 {
		callBody = fmt.Sprintf("%s(%s)\n\t\t\treturn nil", callee, strings.Join(args, ", "))
	} else {
		var rs, boxed []string
		for i := 0; i < nres; i++ {
			rs = append(rs, fmt.Sprintf("r%d", i))
			boxed = append(boxed, fmt.Sprintf("r%d", i))
		}
		callBody = fmt.Sprintf("%s := %s(%s)\n\t\t\treturn []interface{}{%s}", strings.Join(rs, ", "), callee, strings.Join(args, ", "), strings.Join(boxed, ", "))
	}
	stubSrc := b.stubSource()
	var src bytes.Buffer
	fmt.Fprintf(&src, "// Code generated by govc: replay of the counterexample for obligation %s\n", o.Name)
	fmt.Fprintf(&src, "// clause: %s\n", strings.ReplaceAll(o.Desc, "\n", " "))
	fmt.Fprintf(&src, "package %s\n\nimport (\n\t\"testing\"\n", tp.Name())
	var ips []string
	for p := range b.imports {
		ips = append(ips, p)
	}
	sort.Strings(ips)
	for _, p := range ips {
		fmt.Fprintf(&src, "\t%s %q\n", b.imports[p], p)
	}
	fmt.Fprintf(&src, ")\n\ntype rpIn struct {\n")
	for _, f := range fields {
		fmt.Fprintf(&src, "\t%s\n", f)
	}
	fmt.Fprintf(&src, "}\n\n// the function's entry state as read back from the solver's model\nfunc rpBuild() *rpIn {\n\tin := &rpIn{}\n")
	for _, d := range b.decls {
		fmt.Fprintf(&src, "\t%s\n", d)
	}
	for _, f := range b.fills {
		fmt.Fprintf(&src, "\t%s\n", f)
	}
	// silence "declared and not used"
	for _, d := range b.decls {
		n := strings.Fields(strings.TrimPrefix(d, "var "))[0]
		fmt.Fprintf(&src, "\t_ = %s\n", n)
	}
	fmt.Fprintf(&src, "\treturn in\n}\n%s\nfunc TestGovcReplay(t *testing.T) {\n\to := rpBuild()\n\tc := rpBuild()\n\t_ = o\n\trpInitStubs()\n", stubSrc)
	var olds, curs []string
	for i := range fn.Params {
		olds = append(olds, fmt.Sprintf("&o.p%d", i))
		curs = append(curs, fmt.Sprintf("&c.p%d", i))
	}
	var qn []string
	for _, n := range names {
		qn = append(qn, fmt.Sprintf("%q", n))
	}
	var qr []string
	for _, r := range reqJS {
		qr = append(qr, fmt.Sprintf("%q", r))
	}
	fmt.Fprintf(&src, "\trpRun(rpCase{\n\t\tObligation: %q,\n\t\tKind: %q,\n\t\tClause: %q,\n\t\tRequires: []string{%s},\n\t\tPreds: %q,\n\t\tNames: []string{%s},\n\t\tOld: []interface{}{%s},\n\t\tCur: []interface{}{%s},\n\t\tGlobals: map[string]interface{}{%s},\n\t\tCall: func() []interface{} {\n\t\t\t%s\n\t\t},\n\t})\n}\n",
		o.Name, o.Kind, string(clauseJS), strings.Join(qr, ", "), string(predJS), strings.Join(qn, ", "), strings.Join(olds, ", "), strings.Join(curs, ", "), strings.Join(globals, ", "), callBody)
	res.Source = src.String()
	res.Approx = b.approx
	// run it against the real code
	rel := strings.TrimPrefix(strings.TrimPrefix(pkgPath, modPath), "/")
	pkgDir := filepath.Join(root, rel)
	tmp, err := os.MkdirTemp("", "govc-replay")
	if err != nil {
		res.Note = "replay not possible: " + err.Error()
		return
	}
	defer os.RemoveAll(tmp)
	caseFile := filepath.Join(tmp, "case_test.go")
	rtFile := filepath.Join(tmp, "rt_test.go")
	os.WriteFile(caseFile, []byte(res.Source), 0o644)
	os.WriteFile(rtFile, []byte(strings.Replace(replayRT, "package PKGNAME", "package "+tp.Name(), 1)), 0o644)
	ov := map[string]map[string]string{"Replace": {
		filepath.Join(pkgDir, "zz_govc_replay_case_test.go"): caseFile,
		filepath.Join(pkgDir, "zz_govc_replay_rt_test.go"):   rtFile,
	}}
	ovb, _ := json.Marshal(ov)
	ovFile := filepath.Join(tmp, "overlay.json")
	os.WriteFile(ovFile, ovb, 0o644)
	cmd := exec.Command("go", "test", "-overlay", ovFile, "-vet=off", "-count=1", "-v", "-timeout", "60s", "-run", "^TestGovcReplay$", ".")
	cmd.Dir = pkgDir
	cmd.Env = append(os.Environ(), "GOFLAGS=-mod=mod", "GOPROXY=off", "GOSUMDB=off", "GOTOOLCHAIN=local")
	done := make(chan struct{})
	var out []byte
	go func() {
		out, _ = cmd.CombinedOutput()
		close(done)
	}()
	select {
	case <-done:
	case <-time.After(240 * time.Second):
		if cmd.Process != nil {
			cmd.Process.Kill()
		}
		<-done
	}
	res.TestOut = firstN(string(out), 6000)
	for _, l := range strings.Split(string(out), "\n") {
		if strings.HasPrefix(l, "GOVC-REPLAY: CONFIRMED") {
			res.Confirmed = true
			res.Note = strings.TrimPrefix(l, "GOVC-REPLAY: ")
		} else if strings.HasPrefix(l, "GOVC-REPLAY: NOT-CONFIRMED") {
			res.Note = strings.TrimPrefix(l, "GOVC-REPLAY: ")
		}
	}
	if res.Note == "" {
		res.Note = "replay test did not produce a verdict (build failure or crash); see test_output"
	}
	return
}
