package main

// Evaluation of spec expressions into SMT terms over a program state.

import (
	"go/token"
	"sort"
	"fmt"
	"go/constant"
	"go/types"
	"strings"

	"golang.org/x/tools/go/ssa"
)

type SpecEnv struct {
	e     *Enc
	cur   *State
	old   *State
	vars  map[string]*Val
	pkg   string
	fr    *Frame
	at    *ssa.BasicBlock
	bound map[string]*Val
	depth int
	facts *[]string
	uses  *[]idxUse
	inOld bool
	outer *SpecEnv // closure invariants evaluated at a call site: the enclosing function's scope
	atEnd bool     // the environment describes the END of block at (its own DebugRefs are visible)
}

type idxUse struct {
	ptr  string
	k    int64
	idx  string
	addr string
}

// load reads memory in a spec context and records the well-formedness of the loaded value
// (heap well-typedness is a global invariant of Go states).
func (env *SpecEnv) load(addr string, t types.Type, comp string) *Val {
	v := env.e.loadAt(env.cur, addr, t, comp)
	if env.facts != nil {
		if f := env.e.wf(v, env.cur.alloc); f != "true" {
			*env.facts = append(*env.facts, f)
		}
	}
	return v
}

type specErr struct{ msg string }

func (env *SpecEnv) fail(format string, args ...interface{}) {
	panic(specErr{fmt.Sprintf(format, args...)})
}

type Ref struct {
	addr string
	T    types.Type
	comp string
}

func (e *Enc) specEnv(fr *Frame, st *State, at *ssa.BasicBlock) *SpecEnv {
	pkg := funcPkgPath(fr.fn)
	vars := map[string]*Val{}
	return &SpecEnv{e: e, cur: st, old: e.top.entry, vars: vars, pkg: pkg, fr: fr, at: at}
}

func (e *Enc) evalBool(x *SExpr, env *SpecEnv) string {
	var facts []string
	n := *env
	n.facts = &facts
	v := n.eval(x)
	if v.K != KBool {
		env.fail("expected boolean: %s", x)
	}
	e.lastFacts = dedup(facts)
	return v.S[0]
}

func dedup(xs []string) []string {
	seen := map[string]bool{}
	var out []string
	for _, x := range xs {
		if !seen[x] {
			seen[x] = true
			out = append(out, x)
		}
	}
	return out
}

func (env *SpecEnv) with(cur *State) *SpecEnv {
	n := *env
	n.cur = cur
	return &n
}

// localAddr: the address of a struct-typed local variable that lives in memory (its address is
// taken somewhere), so that specifications can apply pointer-receiver predicates to it.
func (env *SpecEnv) localAddr(name string) *Ref {
	fr := env.fr
	at := env.at
	if fr == nil || at == nil || env.inOld {
		return nil
	}
	var best *ssa.DebugRef
	for _, b := range fr.fn.Blocks {
		if !(b.Dominates(at)) || (b == at && !env.atEnd) {
			continue
		}
		for _, in := range b.Instrs {
			d, ok := in.(*ssa.DebugRef)
			if !ok || !d.IsAddr {
				continue
			}
			v, isVar := d.Object().(*types.Var)
			if !isVar || v.Name() != name || v.IsField() {
				continue
			}
			if _, have := fr.vals[d.X]; !have {
				continue
			}
			if best == nil || best.Block().Dominates(b) {
				best = d
			}
		}
	}
	if best == nil {
		return nil
	}
	t := derefType(best.X.Type())
	if t == nil || kindOf(t) != KStruct {
		return nil
	}
	if _, isArr := t.Underlying().(*types.Array); isArr {
		return nil
	}
	v := env.e.val(fr, env.cur, best.X)
	return &Ref{v.term(), t, ""}
}

func (env *SpecEnv) lookupLocal(name string) *Val {
	fr := env.fr
	if fr == nil {
		return nil
	}
	e := env.e
	at := env.at
	if env.inOld {
		// inside old(): a parameter name denotes its value on function entry
		for _, p := range fr.fn.Params {
			if p.Name() == name {
				return fr.vals[p]
			}
		}
	}
	// free variables of a closure (pointers to the captured cells)
	for _, fv := range fr.fn.FreeVars {
		if fv.Name() == name {
			if v, ok := fr.vals[fv]; ok {
				return v
			}
		}
	}
	if at != nil {
		for _, in := range at.Instrs {
			phi, ok := in.(*ssa.Phi)
			if !ok {
				break
			}
			if phi.Comment == name {
				return e.val(fr, env.cur, phi)
			}
		}
		if name == "$i" {
			for _, in := range at.Instrs {
				phi, ok := in.(*ssa.Phi)
				if !ok {
					break
				}
				if phi.Comment == "rangeindex" {
					return e.val(fr, env.cur, phi)
				}
			}
			// the same loop written with an explicit counter (for i := 0; i < n; i++): at the header the
			// counter is the number of elements processed, i.e. one more than the index last processed
			var ind *ssa.Phi
			nind := 0
			for _, in := range at.Instrs {
				phi, ok := in.(*ssa.Phi)
				if !ok {
					break
				}
				if len(phi.Edges) != 2 {
					continue
				}
				if b, isInt := phi.Type().Underlying().(*types.Basic); !isInt || b.Info()&types.IsInteger == 0 {
					continue
				}
				for k := 0; k < 2; k++ {
					c, isC := phi.Edges[k].(*ssa.Const)
					bo, isB := phi.Edges[1-k].(*ssa.BinOp)
					if !isC || !isB || c.Value == nil || c.Value.ExactString() != "0" || bo.Op != token.ADD || bo.X != ssa.Value(phi) {
						continue
					}
					if one, isOne := bo.Y.(*ssa.Const); isOne && one.Value != nil && one.Value.ExactString() == "1" {
						ind = phi
						nind++
					}
				}
			}
			if nind == 1 {
				v := e.val(fr, env.cur, ind)
				return mathInt(app("-", v.term(), "1"))
			}
		}
		// latest dominating DebugRef
		var best *ssa.DebugRef
		for _, b := range fr.fn.Blocks {
			if !(b.Dominates(at)) || (b == at && !env.atEnd) {
				continue
			}
			for _, in := range b.Instrs {
				d, ok := in.(*ssa.DebugRef)
				if !ok {
					continue
				}
				v, isVar := d.Object().(*types.Var)
				if !isVar || v.Name() != name || v.IsField() {
					continue
				}
				if _, have := fr.vals[d.X]; !have {
					if _, isP := d.X.(*ssa.Parameter); !isP {
						if _, isC := d.X.(*ssa.Const); !isC {
							continue
						}
					}
				}
				if best == nil || best.Block().Dominates(b) {
					best = d
				}
			}
		}
		// a variable assigned on several branches lives in a phi of a dominating block
		var bestPhi *ssa.Phi
		for _, b := range fr.fn.Blocks {
			if !b.Dominates(at) {
				continue
			}
			for _, in := range b.Instrs {
				phi, ok := in.(*ssa.Phi)
				if !ok {
					break
				}
				if phi.Comment != name {
					continue
				}
				if _, have := fr.vals[phi]; !have {
					continue
				}
				if bestPhi == nil || bestPhi.Block().Dominates(b) {
					bestPhi = phi
				}
			}
		}
		if bestPhi != nil && (best == nil || !bestPhi.Block().Dominates(best.Block())) {
			return e.val(fr, env.cur, bestPhi)
		}
		if best != nil {
			v := e.val(fr, env.cur, best.X)
			if best.IsAddr {
				t := derefType(best.X.Type())
				return env.load(v.term(), t, v.Comp)
			}
			return v
		}
		if bestPhi != nil {
			return e.val(fr, env.cur, bestPhi)
		}
	}
	for _, p := range fr.fn.Params {
		if p.Name() == name {
			return fr.vals[p]
		}
	}
	for i, fv := range fr.fn.FreeVars {
		_ = i
		if fv.Name() == name {
			if v, ok := fr.vals[fv]; ok {
				t := derefType(fv.Type())
				if t != nil {
					return env.load(v.term(), t, v.Comp)
				}
				return v
			}
		}
	}
	return nil
}

func (env *SpecEnv) pkgScopeLookup(pkgPath, name string) *Val {
	e := env.e
	tp := e.w.typesPkg(pkgPath)
	if tp == nil {
		return nil
	}
	obj := tp.Scope().Lookup(name)
	if obj == nil {
		// ghost var?
		for _, g := range e.w.cs.GVars {
			if g.Pkg == pkgPath && g.Field == name {
				sortS, k := ghostSort(g.Typ)
				arr := e.comp(env.cur, "GV:"+pkgPath+"."+name, "(Array Int "+sortS+")")
				if k == KArr {
					return &Val{K: KArr, S: []string{sel(arr, "0")}, Sort: sortS}
				}
				if k == KBool {
					return boolVal(sel(arr, "0"))
				}
				return mathInt(sel(arr, "0"))
			}
		}
		return nil
	}
	switch o := obj.(type) {
	case *types.Const:
		return constToVal(o.Type(), o.Val(), e)
	case *types.Var:
		g := e.w.globalFor(o)
		if g == nil {
			return nil
		}
		if e.w.isSentinel(g) {
			return e.sentinelVal(env.cur, g)
		}
		if c := e.w.constGlobal(g); c != nil {
			return e.constVal(c)
		}
		if e.w.neverStored(g) {
			return e.zero(o.Type())
		}
		addr := e.w.globalAddr(g)
		return env.load(addr, o.Type(), "")
	}
	return nil
}

func constToVal(t types.Type, v constant.Value, e *Enc) *Val {
	switch v.Kind() {
	case constant.Bool:
		if constant.BoolVal(v) {
			return boolVal("true")
		}
		return boolVal("false")
	case constant.Int:
		s := v.ExactString()
		if strings.HasPrefix(s, "-") {
			s = "(- " + s[1:] + ")"
		}
		return intVal(t, s)
	case constant.String:
		return intVal(t, e.strID(constant.StringVal(v)))
	}
	return nil
}

func ghostSort(typ string) (string, Kind) {
	if strings.HasPrefix(typ, "ptrmap:") {
		return "(Array Int Int)", KArr
	}
	switch typ {
	case "bool":
		return "Bool", KBool
	case "set":
		return "(Array Int Bool)", KArr
	case "intmap":
		return "(Array Int Int)", KArr
	}
	return "Int", KInt
}

func (env *SpecEnv) importedPkg(name string) string {
	tp := env.e.w.typesPkg(env.pkg)
	if tp == nil {
		return ""
	}
	for _, imp := range tp.Imports() {
		if imp.Name() == name {
			return imp.Path()
		}
	}
	// import aliases: consult the syntax of the package
	if p := env.e.w.importAlias(env.pkg, name); p != "" {
		return p
	}
	return ""
}

func isNilVal(v *Val) bool { return v != nil && v.Sort == "nil" }

func (env *SpecEnv) eval(x *SExpr) *Val {
	e := env.e
	switch x.Op {
	case "num":
		return mathInt(x.Num)
	case "true":
		return boolVal("true")
	case "false":
		return boolVal("false")
	case "nil":
		return &Val{K: KInt, S: []string{"0"}, Sort: "nil"}
	case "str":
		return intVal(types.Typ[types.String], e.strID(x.Name))
	case "ident":
		if v, ok := env.bound[x.Name]; ok {
			return v
		}
		if v, ok := env.vars[x.Name]; ok {
			return v
		}
		if v := env.lookupLocal(x.Name); v != nil {
			return v
		}
		if v := env.pkgScopeLookup(env.pkg, x.Name); v != nil {
			return v
		}
		switch x.Name {
		case "MaxUint64":
			return mathInt("18446744073709551615")
		case "MaxInt64":
			return mathInt("9223372036854775807")
		}
		env.fail("unresolved identifier %s", x.Name)
	case "old":
		if env.old == nil {
			env.fail("old() not available here")
		}
		n := env.with(env.old)
		n.inOld = true
		return n.eval(x.Args[0])
	case "un":
		switch x.Name {
		case "!":
			v := env.eval(x.Args[0])
			if v.K != KBool {
				env.fail("! on non-bool: %s", x)
			}
			return boolVal(not(v.S[0]))
		case "-":
			v := env.eval(x.Args[0])
			return mathInt(fmt.Sprintf("(- %s)", v.term()))
		case "*":
			r := env.ref(x)
			if r == nil {
				env.fail("cannot dereference %s", x)
			}
			return env.load(r.addr, r.T, r.comp)
		}
	case "bin":
		return env.evalBin(x)
	case "sel", "idx":
		if x.Op == "sel" && x.Args[0].Op == "ident" {
			// package-qualified name?
			n := x.Args[0].Name
			if _, isB := env.bound[n]; !isB {
				if _, isV := env.vars[n]; !isV && env.lookupLocal(n) == nil && env.pkgScopeLookup(env.pkg, n) == nil {
					if pp := env.importedPkg(n); pp != "" {
						if v := env.pkgScopeLookup(pp, x.Name); v != nil {
							return v
						}
						env.fail("unresolved %s.%s", n, x.Name)
					}
				}
			}
		}
		if r := env.ref(x); r != nil {
			return env.load(r.addr, r.T, r.comp)
		}
		return env.evalValueSel(x)
	case "slice":
		s := env.eval(x.Args[0])
		if s.K != KSlice {
			env.fail("slicing non-slice %s", x)
		}
		lo, hi := "0", s.S[1]
		if x.Args[1] != nil {
			lo = env.eval(x.Args[1]).term()
		}
		if x.Args[2] != nil {
			hi = env.eval(x.Args[2]).term()
		}
		k := sizeOf(elemType(s.T))
		return &Val{T: s.T, K: KSlice, S: []string{elemAddr(s.S[0], k, lo), app("-", hi, lo), app("-", s.S[2], lo)}}
	case "call":
		return env.evalCall(x)
	case "quant":
		return env.evalQuant(x)
	}
	env.fail("cannot evaluate %s", x)
	return nil
}

func (env *SpecEnv) evalQuant(x *SExpr) *Val {
	n := *env
	n.bound = map[string]*Val{}
	for k, v := range env.bound {
		n.bound[k] = v
	}
	var decls []string
	var guards []string
	var bnames []string
	n.depth = env.depth + 1
	for i, name := range x.Vars {
		vn := fmt.Sprintf("%s!b%d", name, env.e.s.n)
		env.e.s.n++
		t := env.e.w.resolveType(env.pkg, x.VTyps[i])
		sortS := "Int"
		var v *Val
		if t != nil && kindOf(t) == KBool {
			sortS = "Bool"
			v = boolVal(vn)
		} else if t != nil && kindOf(t) == KStruct {
			// struct-typed bound variable: one SMT variable per scalar leaf
			var lvs []leaf
			env.e.flatSorts(t, "", &lvs)
			var terms []string
			for j, lf := range lvs {
				ln := fmt.Sprintf("%s!b%d_%d", name, env.e.s.n, j)
				decls = append(decls, fmt.Sprintf("(%s %s)", ln, lf.sort))
				bnames = append(bnames, ln)
				terms = append(terms, ln)
			}
			env.e.s.n++
			pos := 0
			sv := env.e.unflatten(t, terms, &pos)
			if g := env.e.wf(sv, "0"); g != "true" {
				guards = append(guards, g)
			}
			n.bound[name] = sv
			continue
		} else if t != nil {
			if kindOf(t) != KInt {
				env.fail("quantifier over non-scalar type %s", x.VTyps[i])
			}
			v = intVal(t, vn)
			if g := rangeOf(t, vn); g != "true" {
				guards = append(guards, g)
			}
		} else {
			if x.VTyps[i] != "int" && x.VTyps[i] != "Int" {
				env.fail("unknown type %s in quantifier", x.VTyps[i])
			}
			v = mathInt(vn)
		}
		if x.VTyps[i] == "int" {
			v = mathInt(vn)
			guards = nil
		}
		n.bound[name] = v
		decls = append(decls, fmt.Sprintf("(%s %s)", vn, sortS))
		bnames = append(bnames, vn)
	}
	var qfacts []string
	n.facts = &qfacts
	var uses []idxUse
	n.uses = &uses
	body := n.eval(x.Args[0])
	if body.K != KBool {
		env.fail("quantifier body not boolean: %s", x)
	}
	// change of variables: quantify over the element address instead of the index so that
	// the select pattern is a plain variable (array property fragment; robust E-matching)
	// (each integer bound variable separately, when it indexes a slice whose base does not
	// depend on any bound variable)
	origNames := append([]string(nil), bnames...)
	for vi := range bnames {
		if len(bnames) > 3 || !strings.HasPrefix(decls[vi], "("+bnames[vi]+" Int") || x.Name != "forall" {
			// existentials keep the index form: their skolem term (select A (+ ptr j)) then
			// matches both the index-form and the address-form triggers of universal facts
			continue
		}
		vn := bnames[vi]
	useLoop:
		for _, u := range uses {
			if strings.Contains(u.ptr, "pa!") || strings.Contains(u.idx, "pa!") {
				continue
			}
			for _, on := range origNames {
				if strings.Contains(u.ptr, on) || (on != vn && strings.Contains(u.idx, on)) {
					continue useLoop
				}
			}
			e0, ok := affineRest(u.idx, vn)
			if !ok {
				continue
			}
			av := fmt.Sprintf("a!q%d", env.e.s.n)
			env.e.s.n++
			// idx = vn + e0  and addr = ptr + k*idx  =>  vn = (addr-ptr)/k - e0
			q := fmt.Sprintf("(- %s %s)", av, u.ptr)
			var extra []string
			if u.k != 1 {
				extra = append(extra, fmt.Sprintf("(= (mod %s %d) 0)", q, u.k))
				q = fmt.Sprintf("(div %s %d)", q, u.k)
			}
			iexpr := q
			if e0 != "0" {
				iexpr = fmt.Sprintf("(- %s %s)", q, e0)
			}
			sub := func(t string) string {
				t = strings.ReplaceAll(t, u.addr, av)
				return strings.ReplaceAll(t, vn, iexpr)
			}
			body = boolVal(sub(body.S[0]))
			for i := range guards {
				guards[i] = sub(guards[i])
			}
			guards = append(guards, extra...)
			for i := range qfacts {
				qfacts[i] = sub(qfacts[i])
			}
			decls[vi] = fmt.Sprintf("(%s Int)", av)
			bnames[vi] = av
			break
		}
	}
	b := body.S[0]
	// well-typedness facts of memory read under the quantifier are global invariants:
	// close them universally and hand them to the enclosing context
	for _, f := range dedup(qfacts) {
		dep := false
		for _, bn := range bnames {
			if strings.Contains(f, bn) {
				dep = true
			}
		}
		if dep {
			f = fmt.Sprintf("(forall (%s) %s)", strings.Join(decls, " "), f)
		}
		if env.facts != nil {
			*env.facts = append(*env.facts, f)
		}
	}
	qfacts = nil
	if x.Name == "forall" {
		body := implies(and(append(guards, qfacts...)...), b)
		if pats := selectPatterns(body, bnames); pats != "" {
			body = fmt.Sprintf("(! %s %s)", body, pats)
		}
		return boolVal(fmt.Sprintf("(forall (%s) %s)", strings.Join(decls, " "), body))
	}
	return boolVal(fmt.Sprintf("(exists (%s) %s)", strings.Join(decls, " "), and(append(append(guards, qfacts...), b)...)))
}

// selectPatterns: explicit triggers "(select A v)" for a single bound variable v that is
// used directly as an array index (after the change of variables).
func selectPatterns(body string, bnames []string) string {
	if len(bnames) != 1 {
		// several bound variables: one multi-pattern with a select term per variable
		if len(bnames) > 3 {
			return ""
		}
		var terms []string
		for _, v := range bnames {
			ps := selectPatternTerms(body, v)
			if len(ps) == 0 {
				return ""
			}
			terms = append(terms, ps[0])
		}
		return ":pattern (" + strings.Join(terms, " ") + ")"
	}
	ps := selectPatternTerms(body, bnames[0])
	if len(ps) == 0 || len(ps) > 6 {
		return ""
	}
	var pats []string
	for _, p := range ps {
		pats = append(pats, ":pattern ("+p+")")
	}
	return strings.Join(pats, " ")
}

func selectPatternTerms(body string, v string) []string {
	seen := map[string]bool{}
	var pats []string
	needle := " " + v + ")"
	i := 0
	for {
		j := strings.Index(body[i:], needle)
		if j < 0 {
			break
		}
		end := i + j + len(needle)
		// walk back to the matching "(select "
		k := i + j
		// array symbol is the token before
		st := k
		for st > 0 && body[st-1] != ' ' && body[st-1] != '(' {
			st--
		}
		if body[st-1] == ' ' {
			// handle |quoted| symbols containing no spaces only
			pre := strings.TrimSuffix(body[:st-1], "")
			if strings.HasSuffix(pre, "(select") {
				pat := "(select " + body[st:end]
				if !strings.ContainsAny(body[st:k], "()") && !seen[pat] {
					seen[pat] = true
					pats = append(pats, pat)
				}
			}
		}
		i = end
	}
	return pats
}

func (env *SpecEnv) evalBin(x *SExpr) *Val {
	switch x.Name {
	case "&&", "||", "==>", "<==>":
		a := env.eval(x.Args[0])
		b := env.eval(x.Args[1])
		if a.K != KBool || b.K != KBool {
			env.fail("logical operator on non-bool: %s", x)
		}
		switch x.Name {
		case "&&":
			return boolVal(and(a.S[0], b.S[0]))
		case "||":
			return boolVal(or(a.S[0], b.S[0]))
		case "==>":
			return boolVal(implies(a.S[0], b.S[0]))
		default:
			return boolVal(eq(a.S[0], b.S[0]))
		}
	case "in":
		k := env.eval(x.Args[0])
		m := env.eval(x.Args[1])
		if m.K == KArr {
			return boolVal(sel(m.S[0], k.term()))
		}
		mt, ok := m.T.Underlying().(*types.Map)
		if !ok {
			env.fail("'in' on non-map: %s", x)
		}
		k = env.coerceKey(k, mt.Key())
		p, _ := env.e.mapGet(env.cur, mt, m.term(), k)
		return boolVal(p)
	}
	a := env.eval(x.Args[0])
	b := env.eval(x.Args[1])
	switch x.Name {
	case "==", "!=":
		var r string
		switch {
		case isNilVal(a) && isNilVal(b):
			r = "true"
		case isNilVal(b):
			r = eq(a.S[0], "0")
		case isNilVal(a):
			r = eq(b.S[0], "0")
		case a.K != b.K:
			env.fail("comparison of different kinds: %s", x)
		default:
			if a.K == KSlice {
				env.fail("slices can only be compared with nil: %s", x)
			}
			r = env.e.eqVal(a, b)
		}
		if x.Name == "!=" {
			r = not(r)
		}
		return boolVal(r)
	}
	if a.K != KInt || b.K != KInt {
		env.fail("arithmetic on non-integers: %s", x)
	}
	s, t := a.S[0], b.S[0]
	switch x.Name {
	case "<", "<=", ">", ">=":
		return boolVal(app(x.Name, s, t))
	case "+", "-", "*":
		return mathInt(app(x.Name, s, t))
	case "/":
		return mathInt(app("div", s, t))
	case "%":
		return mathInt(app("mod", s, t))
	case "<<":
		if isLiteral(t) {
			return mathInt(fmt.Sprintf("(* %s %s)", s, pow2(atoi(t))))
		}
	case ">>":
		if isLiteral(t) {
			return mathInt(fmt.Sprintf("(div %s %s)", s, pow2(atoi(t))))
		}
	case "&":
		return mathInt(fmt.Sprintf("(bitand %s %s)", s, t))
	case "|":
		return mathInt(fmt.Sprintf("(bitor %s %s)", s, t))
	}
	env.fail("unsupported operator %s", x.Name)
	return nil
}

func (env *SpecEnv) coerceKey(k *Val, kt types.Type) *Val {
	if k.K == KInt && kindOf(kt) == KInt {
		n := *k
		n.T = kt
		return &n
	}
	return k
}

// fieldPath finds the index path of a (possibly promoted) field.
func fieldPath(t types.Type, name string) ([]int, bool) {
	obj, idx, _ := types.LookupFieldOrMethod(t, true, nil, name)
	if obj == nil {
		// unexported field lookup requires the package
		if n, ok := derefNamed(t); ok && n.Obj().Pkg() != nil {
			obj, idx, _ = types.LookupFieldOrMethod(t, true, n.Obj().Pkg(), name)
		}
	}
	if _, ok := obj.(*types.Var); ok {
		return idx, true
	}
	// anonymous struct types (e.g. `mu struct{...}`): direct fields by name
	bt := t
	if p, ok := bt.(*types.Pointer); ok {
		bt = p.Elem()
	}
	if stt, ok := bt.Underlying().(*types.Struct); ok {
		for i := 0; i < stt.NumFields(); i++ {
			if stt.Field(i).Name() == name {
				return []int{i}, true
			}
		}
	}
	return nil, false
}

func derefNamed(t types.Type) (*types.Named, bool) {
	if p, ok := t.(*types.Pointer); ok {
		t = p.Elem()
	}
	n, ok := t.(*types.Named)
	return n, ok
}

// ref evaluates an addressable spec expression to a memory reference (nil if not addressable).
func (env *SpecEnv) ref(x *SExpr) *Ref {
	e := env.e
	switch x.Op {
	case "un":
		if x.Name == "*" {
			v := env.eval(x.Args[0])
			t := derefType(v.T)
			if t == nil {
				env.fail("dereference of non-pointer %s", x)
			}
			return &Ref{v.term(), t, v.Comp}
		}
	case "sel":
		var base *Ref
		if b := env.refOrNil(x.Args[0]); b != nil {
			base = b
			if pt := derefType(base.T); pt != nil {
				if _, isStruct := pt.Underlying().(*types.Struct); isStruct {
					pv := env.load(base.addr, base.T, base.comp)
					base = &Ref{pv.term(), pt, ""}
				}
			}
		} else {
			v := env.evalOrNil(x.Args[0])
			if v == nil || v.T == nil {
				return nil
			}
			pt := derefType(v.T)
			if pt == nil {
				return nil
			}
			base = &Ref{v.term(), pt, ""}
		}
		stt, ok := base.T.Underlying().(*types.Struct)
		if !ok {
			return nil
		}
		// ghost field?
		if g := e.w.ghostField(base.T, x.Name); g != nil {
			return nil
		}
		path, ok := fieldPath(base.T, x.Name)
		if !ok {
			env.fail("no field %s in %s", x.Name, base.T)
		}
		cur := base
		for _, i := range path {
			stt = cur.T.Underlying().(*types.Struct)
			ft := stt.Field(i).Type()
			comp := "F:" + structKey(cur.T) + "." + stt.Field(i).Name()
			if kindOf(ft) == KStruct {
				if _, isArr := ft.Underlying().(*types.Array); !isArr {
					comp = ""
				}
			}
			cur = &Ref{addOff(cur.addr, fieldOff(stt, i)), ft, comp}
			// embedded pointer: load and continue
			if pt := derefType(ft); pt != nil && i != path[len(path)-1] {
				pv := env.load(cur.addr, ft, cur.comp)
				cur = &Ref{pv.term(), pt, ""}
			}
		}
		return cur
	case "idx":
		var sv *Val
		if b := env.refOrNil(x.Args[0]); b != nil {
			if at, isArr := b.T.Underlying().(*types.Array); isArr {
				i := env.eval(x.Args[1]).term()
				comp := b.comp
				if kindOf(at.Elem()) == KStruct {
					if _, isA := at.Elem().Underlying().(*types.Array); !isA {
						comp = ""
					}
				}
				return &Ref{elemAddr(b.addr, sizeOf(at.Elem()), i), at.Elem(), comp}
			}
			sv = env.load(b.addr, b.T, b.comp)
		} else {
			sv = env.evalOrNil(x.Args[0])
		}
		if sv == nil || sv.K != KSlice {
			return nil
		}
		et := elemType(sv.T)
		i := env.eval(x.Args[1]).term()
		ad := elemAddr(sv.S[0], sizeOf(et), i)
		if env.uses != nil {
			*env.uses = append(*env.uses, idxUse{sv.S[0], sizeOf(et), i, ad})
		}
		return &Ref{ad, et, ""}
	}
	return nil
}

func (env *SpecEnv) refOrNil(x *SExpr) *Ref {
	switch x.Op {
	case "sel", "idx":
		if x.Op == "sel" && x.Args[0].Op == "ident" {
			n := x.Args[0].Name
			if _, isB := env.bound[n]; !isB {
				if _, isV := env.vars[n]; !isV && env.lookupLocal(n) == nil && env.pkgScopeLookup(env.pkg, n) == nil {
					return nil
				}
			}
		}
		return env.ref(x)
	case "un":
		if x.Name == "*" {
			return env.ref(x)
		}
	case "ident":
		// global variable of struct type: addressable
		if _, isB := env.bound[x.Name]; isB {
			return nil
		}
		if _, isV := env.vars[x.Name]; isV {
			return nil
		}
		if r := env.localAddr(x.Name); r != nil {
			return r
		}
		if env.lookupLocal(x.Name) != nil {
			return nil
		}
		tp := env.e.w.typesPkg(env.pkg)
		if tp != nil {
			if o, ok := tp.Scope().Lookup(x.Name).(*types.Var); ok {
				if g := env.e.w.globalFor(o); g != nil {
					return &Ref{env.e.w.globalAddr(g), o.Type(), ""}
				}
			}
		}
	}
	return nil
}

func (env *SpecEnv) evalOrNil(x *SExpr) *Val {
	return env.eval(x)
}

// value-level selection / indexing (struct values, map values, ghost fields, KArr)
func (env *SpecEnv) evalValueSel(x *SExpr) *Val {
	e := env.e
	if x.Op == "sel" {
		base := env.eval(x.Args[0])
		// ghost field on pointer-to-struct or struct ref
		var bt types.Type = base.T
		if bt != nil {
			if pt := derefType(bt); pt != nil {
				if g := e.w.ghostField(pt, x.Name); g != nil {
					return env.ghostLoad(g, base.term())
				}
			}
		}
		if base.K == KIface && bt != nil {
			if g := e.w.ghostField(bt, x.Name); g != nil {
				return env.ghostLoad(g, base.S[1])
			}
		}
		if base.K == KStruct {
			path, ok := fieldPath(base.T, x.Name)
			if !ok {
				env.fail("no field %s in %v", x.Name, base.T)
			}
			cur := base
			for _, i := range path {
				cur = cur.F[i]
				if pt := derefType(cur.T); pt != nil && i != path[len(path)-1] {
					env.fail("embedded pointer in value selection unsupported: %s", x)
				}
			}
			return cur
		}
		if base.K == KTuple {
			env.fail("selection on tuple: %s", x)
		}
		env.fail("cannot select %s from %s (type %v)", x.Name, x.Args[0], base.T)
	}
	// idx
	base := env.eval(x.Args[0])
	idx := env.eval(x.Args[1])
	if base.K == KArr {
		if strings.HasSuffix(base.Sort, "Bool)") {
			return boolVal(sel(base.S[0], idx.term()))
		}
		if base.ET != nil {
			return intVal(base.ET, sel(base.S[0], idx.term()))
		}
		return mathInt(sel(base.S[0], idx.term()))
	}
	if base.T != nil {
		if mt, ok := base.T.Underlying().(*types.Map); ok {
			k := env.coerceKey(idx, mt.Key())
			pr, v := e.mapGet(env.cur, mt, base.term(), k)
			if env.facts != nil {
				if f := e.wf(v, env.cur.alloc); f != "true" {
					*env.facts = append(*env.facts, implies(pr, f))
				}
			}
			return v
		}
		if _, ok := base.T.Underlying().(*types.Array); ok && base.K == KStruct {
			if isLiteral(idx.term()) {
				return base.F[atoi(idx.term())]
			}
			n := len(base.F)
			v := base.F[n-1]
			for i := n - 2; i >= 0; i-- {
				v = e.iteVal(fmt.Sprintf("(= %s %d)", idx.term(), i), base.F[i], v)
			}
			return v
		}
	}
	env.fail("cannot index %s", x)
	return nil
}

func (env *SpecEnv) ghostLoad(g *GhostField, addr string) *Val {
	sortS, k := ghostSort(g.Typ)
	if env.e.ghostComps == nil {
		env.e.ghostComps = map[string]bool{}
	}
	env.e.ghostComps["F:"+g.Pkg+"."+g.Type+"."+g.Field] = true
	arr := env.e.comp(env.cur, "F:"+g.Pkg+"."+g.Type+"."+g.Field, "(Array Int "+sortS+")")
	switch k {
	case KBool:
		return boolVal(sel(arr, addr))
	case KArr:
		v := &Val{K: KArr, S: []string{sel(arr, addr)}, Sort: sortS}
		if strings.HasPrefix(g.Typ, "ptrmap:") {
			t := env.e.w.resolveType(g.Pkg, strings.TrimPrefix(g.Typ, "ptrmap:"))
			if t == nil {
				env.fail("unknown type in %s", g.Typ)
			}
			v.ET = types.NewPointer(t)
		}
		return v
	}
	return mathInt(sel(arr, addr))
}

func (env *SpecEnv) evalCall(x *SExpr) *Val {
	e := env.e
	fn := x.Args[0]
	args := x.Args[1:]
	if fn.Op == "ident" {
		switch fn.Name {
		case "len", "cap":
			v := env.eval(args[0])
			if v.K == KSlice {
				if fn.Name == "len" {
					return mathInt(v.S[1])
				}
				return mathInt(v.S[2])
			}
			if v.T != nil {
				if mt, ok := v.T.Underlying().(*types.Map); ok {
					ln := e.mapLen(env.cur, mt, v.term())
					if env.facts != nil {
						*env.facts = append(*env.facts, fmt.Sprintf("(and (<= 0 %s) (<= %s 1099511627776))", ln, ln))
					}
					return mathInt(ln)
				}
				if isString(v.T) {
					return mathInt(fmt.Sprintf("(strlen %s)", v.term()))
				}
				if at, ok := v.T.Underlying().(*types.Array); ok {
					return mathInt(fmt.Sprintf("%d", at.Len()))
				}
				if _, ok := v.T.Underlying().(*types.Chan); ok {
					c := "CH:len"
					if fn.Name == "cap" {
						c = "CH:cap"
					}
					if env.facts != nil {
						la := sel(e.comp(env.cur, "CH:len", "(Array Int Int)"), v.term())
						ca := sel(e.comp(env.cur, "CH:cap", "(Array Int Int)"), v.term())
						*env.facts = append(*env.facts, fmt.Sprintf("(and (<= 0 %s) (<= %s %s))", la, la, ca))
					}
					return mathInt(sel(e.comp(env.cur, c, "(Array Int Int)"), v.term()))
				}
			}
			env.fail("len of %s", args[0])
		case "ite":
			c := env.eval(args[0])
			a := env.eval(args[1])
			b := env.eval(args[2])
			if a.K == KInt && b.K == KInt {
				return mathInt(ite(c.S[0], a.S[0], b.S[0]))
			}
			return e.iteVal(c.S[0], a, b)
		case "min", "max":
			a := env.eval(args[0]).term()
			b := env.eval(args[1]).term()
			op := "<="
			if fn.Name == "max" {
				op = ">="
			}
			return mathInt(fmt.Sprintf("(ite (%s %s %s) %s %s)", op, a, b, a, b))
		case "visited":
			return env.visited(args)
		case "held":
			r := env.lockRef(args[0])
			h := e.comp(env.cur, "L:held", "(Array Int Int)")
			return mathInt(sel(h, r))
		case "errIs":
			a := env.eval(args[0])
			b := env.eval(args[1])
			return boolVal(fmt.Sprintf("(and (not (= %s 0)) (or (and (= %s %s) (= %s %s)) (and (not (= %s 0)) (= (errroot %s %s) %s))))",
				a.S[0], a.S[0], b.S[0], a.S[1], b.S[1], b.S[0], a.S[0], a.S[1], b.S[1]))
		case "fresh":
			// fresh(p): p was allocated during the call
			v := env.eval(args[0])
			if env.old == nil {
				env.fail("fresh() needs an old state")
			}
			return boolVal(fmt.Sprintf("(>= %s %s)", v.S[0], env.old.alloc))
		case "allocated":
			v := env.eval(args[0])
			return boolVal(fmt.Sprintf("(< %s %s)", v.S[0], env.cur.alloc))
		case "sentinel":
			// sentinel("pkg/path", "ErrName"): a package-level error variable of another package
			pp := args[0].Name
			if !strings.Contains(pp, ".") || !strings.HasPrefix(pp, "github.com") {
				// a standard-library package (sentinel("io", "EOF")) is tried under its own path first
				if v := env.pkgScopeLookup(pp, args[1].Name); v != nil {
					return v
				}
				pp = modPath + "/" + pp
			}
			if v := env.pkgScopeLookup(pp, args[1].Name); v != nil {
				return v
			}
			env.fail("unknown sentinel %s.%s", pp, args[1].Name)
		case "counttrue", "countvisited":
			// counttrue(m): number of keys of map[K]bool m whose value is true
			// countvisited(m): the same restricted to the keys visited so far by the loop's iterator
			m := env.eval(args[0])
			mt, ok := m.T.Underlying().(*types.Map)
			if !ok || kindOf(mt.Elem()) != KBool || len(e.mapKeySorts(mt)) != 1 {
				env.fail("%s needs a map with a scalar key and bool values", fn.Name)
			}
			mc := e.mapInfo(mt)
			val := sel(e.comp(env.cur, mc.vals[0].suffix, mc.valS[0]), m.term())
			var set string
			if fn.Name == "counttrue" {
				set = sel(e.comp(env.cur, mc.dom, mc.domS), m.term())
			} else {
				it := env.loopIter()
				set = e.comp(env.cur, it.comp, it.compSort)
			}
			e.useCnt2()
			r := fmt.Sprintf("(cnt2 %s %s)", set, val)
			if env.facts != nil {
				*env.facts = append(*env.facts, fmt.Sprintf("(<= 0 %s)", r))
			}
			return mathInt(r)
		case "sumall", "sumvisited":
			// sumall(m, w): sum over the keys k of map m of the pure function w(k, m[k])
			// sumvisited(m, w): the same over the keys visited so far by the loop's iterator
			m := env.eval(args[0])
			mt, ok := m.T.Underlying().(*types.Map)
			if !ok || len(e.mapKeySorts(mt)) != 1 {
				env.fail("%s needs a map with a scalar key", fn.Name)
			}
			pf := e.w.pure(env.pkg, args[1].Name)
			if pf == nil || len(pf.Params) != 2 {
				env.fail("%s: %s is not a pure function of (key, value)", fn.Name, args[1].Name)
			}
			mc := e.mapInfo(mt)
			kq := fmt.Sprintf("k!w%d", e.s.n)
			e.s.n++
			kv := intVal(mt.Key(), kq)
			_, vv := e.mapGet(env.cur, mt, m.term(), kv)
			wenv := &SpecEnv{e: e, cur: env.cur, old: env.old, pkg: pf.Pkg, depth: env.depth + 1}
			wenv.vars = map[string]*Val{pf.Params[0]: kv, pf.Params[1]: vv}
			var wfacts []string
			wenv.facts = &wfacts
			body := wenv.eval(pf.Body)
			W := e.s.Fresh("W", "(Array Int Int)")
			def := fmt.Sprintf("(forall ((%s Int)) (! (= (select %s %s) %s) :pattern ((select %s %s))))", kq, W, kq, body.term(), W, kq)
			var set string
			if fn.Name == "sumall" {
				set = sel(e.comp(env.cur, mc.dom, mc.domS), m.term())
				if env.facts != nil {
					// a map with a key has a positive length
					*env.facts = append(*env.facts, fmt.Sprintf("(forall ((%s Int)) (! (=> (select %s %s) (>= %s 1)) :pattern ((select %s %s))))", kq, set, kq, e.mapLen(env.cur, mt, m.term()), set, kq))
				}
			} else {
				it := env.loopIter()
				set = e.comp(env.cur, it.comp, it.compSort)
			}
			e.useSum2()
			if env.facts != nil {
				*env.facts = append(*env.facts, def)
				for _, f := range wfacts {
					*env.facts = append(*env.facts, fmt.Sprintf("(forall ((%s Int)) %s)", kq, f))
				}
			}
			return mathInt(fmt.Sprintf("(sum2 %s %s)", set, W))
		case "mk":
			// mk(T, f1, f2, ...): a struct value of type T from its fields in declaration order
			t := e.w.resolveType(env.pkg, args[0].String())
			if t == nil {
				env.fail("unknown type %s", args[0])
			}
			stt, ok := t.Underlying().(*types.Struct)
			if !ok || stt.NumFields() != len(args)-1 {
				env.fail("mk(%s): wrong number of fields", args[0])
			}
			sv := &Val{T: t, K: KStruct}
			for i := 0; i < stt.NumFields(); i++ {
				fv := env.eval(args[i+1])
				c := *fv
				c.T = stt.Field(i).Type()
				c.Math = false
				sv.F = append(sv.F, &c)
			}
			return sv
		case "itersteps":
			it := env.loopIter()
			return mathInt(e.comp(env.cur, it.comp+"#steps", "Int"))
		case "inregion":
			// inregion(p, s): pointer p lies inside the backing array (up to cap) of slice s
			pv := env.eval(args[0])
			sv := env.eval(args[1])
			if sv.K != KSlice {
				env.fail("inregion: second argument must be a slice")
			}
			k := sizeOf(elemType(sv.T))
			return boolVal(fmt.Sprintf("(and (<= %s %s) (< %s (+ %s %s)))", sv.S[0], pv.S[0], pv.S[0], sv.S[0], mulK(k, sv.S[2])))
		case "disjoint":
			// disjoint(s, t): the backing arrays (up to cap) of the two slices share no address
			sv := env.eval(args[0])
			tv := env.eval(args[1])
			if sv.K != KSlice || tv.K != KSlice {
				env.fail("disjoint: both arguments must be slices")
			}
			ks := sizeOf(elemType(sv.T))
			kt := sizeOf(elemType(tv.T))
			return boolVal(fmt.Sprintf("(or (<= (+ %s %s) %s) (<= (+ %s %s) %s))", sv.S[0], mulK(ks, sv.S[2]), tv.S[0], tv.S[0], mulK(kt, tv.S[2]), sv.S[0]))
		case "obj":
			v := env.eval(args[0])
			if v.K == KIface {
				return mathInt(v.S[1])
			}
			return mathInt(v.term())
		case "as":
			// as(T, x): the dynamic value of interface x viewed as a value of pointer type T
			t := e.w.resolveType(env.pkg, args[0].String())
			if t == nil || !isPointer(t) {
				env.fail("as(T, x) needs a pointer type, got %s", args[0])
			}
			v := env.eval(args[1])
			a := v.S[0]
			if v.K == KIface {
				a = v.S[1]
			}
			return &Val{T: t, K: KInt, S: []string{a}}
		case "asslice":
			// asslice(T, x): the dynamic value of interface x viewed as a []T (boxed slice header)
			t := e.w.resolveType(env.pkg, args[0].String())
			if t == nil {
				env.fail("asslice(T, x): unknown element type %s", args[0])
			}
			v := env.eval(args[1])
			if v.K != KIface {
				env.fail("asslice(T, x) needs an interface value")
			}
			return e.unbox(env.cur, v, types.NewSlice(t))
		case "outer":
			// outer(E): an integer expression of the enclosing function (closure contracts). While
			// the closure body is verified it is a rigid unknown; where the closure is handed to a
			// callee it is evaluated in the caller's scope.
			if env.outer != nil {
				v := env.outer.eval(args[0])
				if v.K != KInt {
					env.fail("outer() supports integer expressions only: %s", args[0])
				}
				return mathInt(v.term())
			}
			if env.fr == nil || env.fr.fn.Parent() == nil {
				env.fail("outer() outside a closure contract")
			}
			key := args[0].String()
			if e.outerSyms == nil {
				e.outerSyms = map[string]string{}
			}
			sy, ok := e.outerSyms[key]
			if !ok {
				sy = e.s.Fresh("outer", "Int")
				e.outerSyms[key] = sy
				e.note("outer(%s) is a rigid unknown inside the closure (bound to the caller's value where the closure is handed over)", key)
			}
			return mathInt(sy)
		case "typeof":
			v := env.eval(args[0])
			if v.K != KIface {
				env.fail("typeof on non-interface")
			}
			return mathInt(v.S[0])
		case "typeid":
			t := e.w.resolveType(env.pkg, args[0].String())
			if t == nil {
				env.fail("unknown type %s", args[0])
			}
			return mathInt(e.typeID(t))
		case "store":
			a := env.eval(args[0])
			k := env.eval(args[1])
			v := env.eval(args[2])
			if a.K != KArr {
				env.fail("store on non-array")
			}
			return &Val{K: KArr, S: []string{sto(a.S[0], k.term(), v.term())}, Sort: a.Sort, ET: a.ET}
		case "emptyset":
			return &Val{K: KArr, S: []string{"((as const (Array Int Bool)) false)"}, Sort: "(Array Int Bool)"}
		case "ptr":
			// ptr(x) of a struct-typed location (e.g. a mutex field) is its address
			if r := env.refOrNil(args[0]); r != nil && r.T != nil && kindOf(r.T) == KStruct {
				return mathInt(r.addr)
			}
			v := env.eval(args[0])
			if v.K == KSlice {
				return mathInt(v.S[0])
			}
			return mathInt(v.term())
		case "strlen":
			v := env.eval(args[0])
			sl := fmt.Sprintf("(strlen %s)", v.term())
			if env.facts != nil {
				*env.facts = append(*env.facts, fmt.Sprintf("(<= 0 %s)", sl))
			}
			return mathInt(sl)
		case "sprintf":
			// sprintf("format", a, b, ...): the string fmt.Sprintf yields for these scalar arguments
			var ts []string
			for _, a := range args {
				ts = append(ts, env.eval(a).term())
			}
			name := fmt.Sprintf("sprintf%d", len(ts)-1)
			e.w.declareUF(e.s, name, len(ts), "Int")
			return intVal(types.Typ[types.String], app(name, ts...))
		case "uf":
			// uf("name", args...) : uninterpreted Int function (declared on demand)
			name := args[0].Name
			var ts []string
			for _, a := range args[1:] {
				ts = append(ts, env.eval(a).term())
			}
			e.w.declareUF(e.s, name, len(ts), "Int")
			return mathInt(app(name, ts...))
		case "ufb":
			name := args[0].Name
			var ts []string
			for _, a := range args[1:] {
				ts = append(ts, env.eval(a).term())
			}
			e.w.declareUF(e.s, name, len(ts), "Bool")
			return boolVal(app(name, ts...))
		}
		// pure function / predicate
		if pf := e.w.pure(env.pkg, fn.Name); pf != nil {
			return env.expandPure(pf, nil, args)
		}
		env.fail("unknown spec function %s", fn.Name)
	}
	if fn.Op == "sel" {
		// method-style predicate: recv.name(args) or pkg.name(args)
		if fn.Args[0].Op == "ident" {
			n := fn.Args[0].Name
			if _, isB := env.bound[n]; !isB {
				if _, isV := env.vars[n]; !isV && env.lookupLocal(n) == nil && env.pkgScopeLookup(env.pkg, n) == nil {
					if pp := env.importedPkg(n); pp != "" {
						if pf := e.w.pure(pp, fn.Name); pf != nil {
							n2 := *env
							n2.pkg = pp
							return n2.expandPureIn(env, pf, nil, args)
						}
					}
				}
			}
		}
		recv := env.eval(fn.Args[0])
		var tn string
		var tpkg string
		if recv.T != nil {
			if n, ok := derefNamed(recv.T); ok {
				tn = n.Obj().Name()
				if n.Obj().Pkg() != nil {
					tpkg = n.Obj().Pkg().Path()
				}
			}
		}
		if pf := e.w.pure(tpkg, "("+tn+")."+fn.Name); pf != nil {
			n2 := *env
			n2.pkg = tpkg
			return n2.expandPureIn(env, pf, recv, args)
		}
		env.fail("unknown predicate %s on %v", fn.Name, recv.T)
	}
	env.fail("cannot call %s", fn)
	return nil
}

func (env *SpecEnv) expandPure(pf *PureFunc, recv *Val, args []*SExpr) *Val {
	return env.expandPureIn(env, pf, recv, args)
}

// expandPureIn: evaluate args in argEnv, body in env (package of the predicate).
func (env *SpecEnv) expandPureIn(argEnv *SpecEnv, pf *PureFunc, recv *Val, args []*SExpr) *Val {
	if env.depth > 40 {
		env.fail("pure function expansion too deep (recursion?) in %s", pf.Name)
	}
	if len(args) != len(pf.Params) {
		env.fail("wrong number of arguments to %s", pf.Name)
	}
	n := &SpecEnv{e: env.e, cur: argEnv.cur, old: argEnv.old, pkg: pf.Pkg, depth: env.depth + 1, facts: argEnv.facts, uses: argEnv.uses}
	n.vars = map[string]*Val{}
	if pf.Recv != "" {
		n.vars[pf.Recv] = recv
	}
	// large scalar arguments are let-bound to avoid exponential term growth
	var lets []string
	for i, a := range args {
		v := argEnv.eval(a)
		if (v.K == KInt || v.K == KBool) && len(v.S[0]) > 60 {
			name := fmt.Sprintf("pa!%d", env.e.s.n)
			env.e.s.n++
			lets = append(lets, fmt.Sprintf("(%s %s)", name, v.S[0]))
			c := *v
			c.S = []string{name}
			v = &c
		}
		n.vars[pf.Params[i]] = v
	}
	nf := 0
	if n.facts != nil {
		nf = len(*n.facts)
	}
	res := n.eval(pf.Body)
	if len(lets) == 0 {
		return res
	}
	wrap := func(t string) string {
		if !strings.Contains(t, "pa!") {
			return t
		}
		return "(let (" + strings.Join(lets, " ") + ") " + t + ")"
	}
	if n.facts != nil {
		for i := nf; i < len(*n.facts); i++ {
			(*n.facts)[i] = wrap((*n.facts)[i])
		}
	}
	return wrapVal(res, wrap)
}

func wrapVal(v *Val, wrap func(string) string) *Val {
	c := *v
	if len(v.S) > 0 {
		c.S = make([]string, len(v.S))
		for i, t := range v.S {
			c.S[i] = wrap(t)
		}
	}
	if len(v.F) > 0 {
		c.F = make([]*Val, len(v.F))
		for i, f := range v.F {
			c.F[i] = wrapVal(f, wrap)
		}
	}
	return &c
}

func (env *SpecEnv) loopIter() *iterInfo {
	fr := env.fr
	if fr == nil || env.at == nil {
		env.fail("only available inside loop invariants")
	}
	for _, in := range env.at.Instrs {
		if nx, ok := in.(*ssa.Next); ok {
			if it := fr.iters[nx.Iter]; it != nil {
				return it
			}
		}
	}
	env.fail("no map iterator in this loop")
	return nil
}

func (env *SpecEnv) visited(args []*SExpr) *Val {
	it := env.loopIter()
	vis := env.e.comp(env.cur, it.comp, it.compSort)
	var ks []string
	for _, a := range args {
		flatten(env.eval(a), &ks)
	}
	return boolVal(mapSel(vis, ks))
}

func (env *SpecEnv) lockRef(x *SExpr) string {
	if r := env.refOrNil(x); r != nil {
		return r.addr
	}
	v := env.eval(x)
	return v.term()
}

// ---------- modifies targets ----------

func (e *Enc) leafTargets(r *Ref, out *[]modTarget) {
	switch u := r.T.Underlying().(type) {
	case *types.Struct:
		for i := 0; i < u.NumFields(); i++ {
			ft := u.Field(i).Type()
			comp := "F:" + structKey(r.T) + "." + u.Field(i).Name()
			e.leafTargets(&Ref{addOff(r.addr, fieldOff(u, i)), ft, comp}, out)
		}
		return
	case *types.Array:
		var lvs []leaf
		e.memLeaves(r.T, r.comp, &lvs)
		for _, lf := range lvs {
			*out = append(*out, modTarget{comp: lf.suffix, sort: lf.sort, kind: "range", addr: r.addr, n: fmt.Sprintf("%d", sizeOf(r.T))})
		}
		return
	}
	c := compFor(r.T, r.comp)
	for _, lf := range leavesOf(r.T) {
		*out = append(*out, modTarget{comp: c + lf.suffix, sort: "(Array Int " + lf.sort + ")", kind: "point", addr: r.addr})
	}
}

func (e *Enc) evalModTarget(x *SExpr, env *SpecEnv) []modTarget {
	var out []modTarget
	if x.Op == "call" && x.Args[0].Op == "ident" {
		switch x.Args[0].Name {
		case "elems":
			s := env.eval(x.Args[1])
			if s.K != KSlice {
				env.fail("elems of non-slice")
			}
			et := elemType(s.T)
			var lvs []leaf
			e.memLeaves(et, "", &lvs)
			seen := map[string]bool{}
			for _, lf := range lvs {
				if seen[lf.suffix] {
					continue
				}
				seen[lf.suffix] = true
				out = append(out, modTarget{comp: lf.suffix, sort: lf.sort, kind: "range", addr: s.S[0], n: mulK(sizeOf(et), s.S[2])})
			}
			return out
		case "entries":
			m := env.eval(x.Args[1])
			mt, ok := m.T.Underlying().(*types.Map)
			if !ok {
				env.fail("entries of non-map")
			}
			mc := e.mapInfo(mt)
			out = append(out, modTarget{comp: mc.dom, sort: mc.domS, kind: "point", addr: m.term()})
			out = append(out, modTarget{comp: mc.ln, sort: "(Array Int Int)", kind: "point", addr: m.term()})
			for i, lf := range mc.vals {
				out = append(out, modTarget{comp: lf.suffix, sort: mc.valS[i], kind: "point", addr: m.term()})
			}
			return out
		case "held":
			r := env.lockRef(x.Args[1])
			return []modTarget{{comp: "L:held", sort: "(Array Int Int)", kind: "point", addr: r}}
		case "freshof":
			// freshof(T.f): field component T.f, but only of objects allocated during the call/loop
			tf := x.Args[1]
			// freshof(T) / freshof(pkg.T): every field of T
			if wt := e.w.resolveType(env.pkg, tf.String()); wt != nil {
				var lvs []leaf
				e.memLeaves(wt, "", &lvs)
				seen := map[string]bool{}
				for _, lf := range lvs {
					if !seen[lf.suffix] {
						seen[lf.suffix] = true
						out = append(out, modTarget{comp: lf.suffix, sort: lf.sort, kind: "fresh"})
					}
				}
				return out
			}
			if tf.Op != "sel" {
				env.fail("freshof(T.f) expected")
			}
			t := e.w.resolveType(env.pkg, tf.Args[0].String())
			if t == nil {
				env.fail("unknown type %s", tf.Args[0])
			}
			stt := t.Underlying().(*types.Struct)
			for i := 0; i < stt.NumFields(); i++ {
				if stt.Field(i).Name() == tf.Name {
					var lvs []leaf
					e.memLeaves(stt.Field(i).Type(), "F:"+structKey(t)+"."+tf.Name, &lvs)
					for _, lf := range lvs {
						out = append(out, modTarget{comp: lf.suffix, sort: lf.sort, kind: "fresh"})
					}
				}
			}
			return out
		case "allof":
			// allof(T.f): the whole field component, any object
			tf := x.Args[1]
			if tf.Op != "sel" {
				env.fail("allof(T.f) expected")
			}
			t := e.w.resolveType(env.pkg, tf.Args[0].String())
			if t == nil {
				env.fail("unknown type %s", tf.Args[0])
			}
			stt := t.Underlying().(*types.Struct)
			for i := 0; i < stt.NumFields(); i++ {
				if stt.Field(i).Name() == tf.Name {
					var lvs []leaf
					e.memLeaves(stt.Field(i).Type(), "F:"+structKey(t)+"."+tf.Name, &lvs)
					for _, lf := range lvs {
						out = append(out, modTarget{comp: lf.suffix, sort: lf.sort, kind: "all"})
					}
				}
			}
			return out
		case "chan":
			c := env.eval(x.Args[1])
			return []modTarget{{comp: "CH:len", sort: "(Array Int Int)", kind: "point", addr: c.term()}}
		case "pointee":
			// pointee(x): the object a pointer, or the pointer held by an interface value, refers to
			// (shallow: the fields of that object). The dynamic type must be known at the call site.
			v := env.eval(x.Args[1])
			var pt types.Type
			addr := ""
			if v.K == KIface {
				var id int
				if _, err := fmt.Sscanf(v.S[0], "%d", &id); err != nil || !isLiteral(v.S[0]) {
					// dynamic type unknown here: any object may be the target
					e.note("pointee(%s): dynamic type not known at a call site; every heap component is havocked there", x.Args[1])
					var ks []string
					for k := range e.compSort {
						ks = append(ks, k)
					}
					sort.Strings(ks)
					for _, k := range ks {
						if strings.HasPrefix(e.compSort[k], "(Array Int ") && !strings.HasPrefix(k, "GV:") && !strings.HasPrefix(k, "L:") && !e.ghostComps[k] {
							out = append(out, modTarget{comp: k, sort: e.compSort[k], kind: "all"})
						}
					}
					return out
				}
				for k, tid := range e.w.typeIDs {
					if tid == id {
						pt = e.w.typeByKey[k]
					}
				}
				addr = v.S[1]
			} else {
				pt = v.T
				addr = v.term()
			}
			if pt == nil || derefType(pt) == nil {
				env.fail("pointee(%s): not a pointer", x.Args[1])
			}
			e.leafTargets(&Ref{addr, derefType(pt), ""}, &out)
			return out
		case "captured":
			// captured(f): the variables captured by reference by the closure f (a callback handed to
			// the callee, which may run it)
			f := env.eval(x.Args[1])
			for _, b := range f.Bind {
				if b == nil || b.T == nil {
					continue
				}
				if dt := derefType(b.T); dt != nil && b.K == KInt {
					e.leafTargets(&Ref{b.term(), dt, b.Comp}, &out)
					// a captured slice variable may be appended to in place: its spare capacity
					// may be written as well
					if _, isSlice := dt.Underlying().(*types.Slice); isSlice {
						sv := env.load(b.term(), dt, b.Comp)
						et := elemType(dt)
						k := sizeOf(et)
						var lvs []leaf
						e.memLeaves(et, "", &lvs)
						seen := map[string]bool{}
						for _, lf := range lvs {
							if seen[lf.suffix] {
								continue
							}
							seen[lf.suffix] = true
							out = append(out, modTarget{comp: lf.suffix, sort: lf.sort, kind: "range", addr: elemAddr(sv.S[0], k, sv.S[1]), n: mulK(k, app("-", sv.S[2], sv.S[1]))})
						}
					}
				}
			}
			return out
		}
	}
	// ghost var
	if x.Op == "ident" {
		for _, g := range e.w.cs.GVars {
			if g.Pkg == env.pkg && g.Field == x.Name {
				sortS, _ := ghostSort(g.Typ)
				return []modTarget{{comp: "GV:" + env.pkg + "." + x.Name, sort: "(Array Int " + sortS + ")", kind: "point", addr: "0"}}
			}
		}
	}
	// package-qualified ghost var
	if x.Op == "sel" && x.Args[0].Op == "ident" {
		if pp := env.importedPkg(x.Args[0].Name); pp != "" {
			for _, g := range e.w.cs.GVars {
				if g.Pkg == pp && g.Field == x.Name {
					sortS, _ := ghostSort(g.Typ)
					return []modTarget{{comp: "GV:" + pp + "." + x.Name, sort: "(Array Int " + sortS + ")", kind: "point", addr: "0"}}
				}
			}
		}
	}
	// ghost field
	if x.Op == "sel" {
		base := env.evalOrNilSafe(x.Args[0])
		if base != nil && base.T != nil {
			if pt := derefType(base.T); pt != nil {
				if g := e.w.ghostField(pt, x.Name); g != nil {
					sortS, _ := ghostSort(g.Typ)
					return []modTarget{{comp: "F:" + g.Pkg + "." + g.Type + "." + g.Field, sort: "(Array Int " + sortS + ")", kind: "point", addr: base.term()}}
				}
			}
			if base.K == KIface {
				if g := e.w.ghostField(base.T, x.Name); g != nil {
					sortS, _ := ghostSort(g.Typ)
					return []modTarget{{comp: "F:" + g.Pkg + "." + g.Type + "." + g.Field, sort: "(Array Int " + sortS + ")", kind: "point", addr: base.S[1]}}
				}
			}
		}
	}
	r := env.refOrNil(x)
	if r == nil {
		env.fail("modifies target not addressable: %s", x)
	}
	e.leafTargets(r, &out)
	return out
}

func (env *SpecEnv) evalOrNilSafe(x *SExpr) (v *Val) {
	defer func() {
		if r := recover(); r != nil {
			if _, ok := r.(specErr); ok {
				v = nil
				return
			}
			panic(r)
		}
	}()
	return env.eval(x)
}

// affineRest: if idx is linear in vn with coefficient 1 (over + and -), return e0 with
// idx = vn + e0.
func affineRest(idx, vn string) (string, bool) {
	c, ok := linCoef(idx, vn)
	if !ok || c != 1 {
		return "", false
	}
	if idx == vn {
		return "0", true
	}
	return strings.ReplaceAll(idx, vn, "0"), true
}

func linCoef(t, vn string) (int, bool) {
	if t == vn {
		return 1, true
	}
	if !strings.Contains(t, vn) {
		return 0, true
	}
	args, op := sexprArgs(t)
	switch op {
	case "+":
		sum := 0
		for _, a := range args {
			c, ok := linCoef(a, vn)
			if !ok {
				return 0, false
			}
			sum += c
		}
		return sum, true
	case "-":
		if len(args) == 1 {
			c, ok := linCoef(args[0], vn)
			return -c, ok
		}
		c0, ok := linCoef(args[0], vn)
		if !ok {
			return 0, false
		}
		for _, a := range args[1:] {
			c, ok := linCoef(a, vn)
			if !ok {
				return 0, false
			}
			c0 -= c
		}
		return c0, true
	}
	return 0, false
}
