package main

import (
	"fmt"
	"go/types"
	"strings"

	"golang.org/x/tools/go/ssa"
)

// flattened leaf sorts of a key type
func (e *Enc) flatSorts(t types.Type, prefix string, out *[]leaf) {
	switch kindOf(t) {
	case KBool:
		*out = append(*out, leaf{prefix, "Bool"})
	case KInt:
		*out = append(*out, leaf{prefix, "Int"})
	case KSlice:
		*out = append(*out, leaf{prefix + "#ptr", "Int"}, leaf{prefix + "#len", "Int"}, leaf{prefix + "#cap", "Int"})
	case KIface:
		*out = append(*out, leaf{prefix + "#tag", "Int"}, leaf{prefix + "#val", "Int"})
	case KStruct:
		switch u := t.Underlying().(type) {
		case *types.Struct:
			for i := 0; i < u.NumFields(); i++ {
				e.flatSorts(u.Field(i).Type(), prefix+"."+u.Field(i).Name(), out)
			}
		case *types.Array:
			if u.Len() > maxArrayVal {
				e.unsupported("large array in map")
			}
			for i := int64(0); i < u.Len(); i++ {
				e.flatSorts(u.Elem(), fmt.Sprintf("%s.%d", prefix, i), out)
			}
		}
	default:
		e.unsupported("flatSorts of %v", t)
	}
}

func (e *Enc) mapKeySorts(mt *types.Map) []string {
	var lvs []leaf
	e.flatSorts(mt.Key(), "", &lvs)
	var out []string
	for _, l := range lvs {
		out = append(out, l.sort)
	}
	return out
}

func (e *Enc) mapValLeaves(mt *types.Map) []leaf {
	var lvs []leaf
	e.flatSorts(mt.Elem(), "", &lvs)
	return lvs
}

func nestArr(ks []string, v string) string {
	s := v
	for i := len(ks) - 1; i >= 0; i-- {
		s = "(Array " + ks[i] + " " + s + ")"
	}
	return s
}

func flatten(v *Val, out *[]string) {
	switch v.K {
	case KInt, KBool, KSlice, KIface, KArr:
		*out = append(*out, v.S...)
	case KStruct, KTuple:
		for _, f := range v.F {
			flatten(f, out)
		}
	}
}

func (e *Enc) unflatten(t types.Type, terms []string, pos *int) *Val {
	switch kindOf(t) {
	case KBool:
		v := boolVal(terms[*pos])
		*pos++
		return v
	case KInt:
		v := intVal(t, terms[*pos])
		*pos++
		return v
	case KSlice:
		v := &Val{T: t, K: KSlice, S: terms[*pos : *pos+3]}
		*pos += 3
		return v
	case KIface:
		v := &Val{T: t, K: KIface, S: terms[*pos : *pos+2]}
		*pos += 2
		return v
	case KStruct:
		v := &Val{T: t, K: KStruct}
		switch u := t.Underlying().(type) {
		case *types.Struct:
			for i := 0; i < u.NumFields(); i++ {
				v.F = append(v.F, e.unflatten(u.Field(i).Type(), terms, pos))
			}
		case *types.Array:
			for i := int64(0); i < u.Len(); i++ {
				v.F = append(v.F, e.unflatten(u.Elem(), terms, pos))
			}
		}
		return v
	}
	e.unsupported("unflatten %v", t)
	return nil
}

func mapSel(arr string, keys []string) string {
	for _, k := range keys {
		arr = sel(arr, k)
	}
	return arr
}

func mapSto(arr string, keys []string, v string) string {
	if len(keys) == 1 {
		return sto(arr, keys[0], v)
	}
	return sto(arr, keys[0], mapSto(sel(arr, keys[0]), keys[1:], v))
}

func constArr(ks []string, v string, val string) string {
	// constant nested array with innermost value val
	s := val
	for i := len(ks) - 1; i >= 0; i-- {
		s = fmt.Sprintf("((as const %s) %s)", nestArr(ks[i:], v), s)
	}
	return s
}

type mapComps struct {
	mk     string
	ks     []string
	dom    string // component names
	ln     string
	vals   []leaf // MV component names + elem sort
	domS   string
	valS   []string
}

func (e *Enc) mapInfo(mt *types.Map) *mapComps {
	mk := typeKey(mt)
	mc := &mapComps{mk: mk, ks: e.mapKeySorts(mt)}
	mc.dom = "MD:" + mk
	mc.ln = "ML:" + mk
	mc.domS = "(Array Int " + nestArr(mc.ks, "Bool") + ")"
	for _, lf := range e.mapValLeaves(mt) {
		mc.vals = append(mc.vals, leaf{"MV:" + mk + lf.suffix, lf.sort})
		mc.valS = append(mc.valS, "(Array Int "+nestArr(mc.ks, lf.sort)+")")
	}
	return mc
}

func (e *Enc) mapInitEmpty(st *State, mt *types.Map, ref string) {
	mc := e.mapInfo(mt)
	d := e.comp(st, mc.dom, mc.domS)
	e.setComp(st, mc.dom, mc.domS, sto(d, ref, constArr(mc.ks, "Bool", "false")))
	l := e.comp(st, mc.ln, "(Array Int Int)")
	e.setComp(st, mc.ln, "(Array Int Int)", sto(l, ref, "0"))
}

// mapGet returns (present, value) for key in map ref in state st.
func (e *Enc) mapGet(st *State, mt *types.Map, ref string, key *Val) (string, *Val) {
	mc := e.mapInfo(mt)
	var ks []string
	flatten(key, &ks)
	d := e.comp(st, mc.dom, mc.domS)
	present := mapSel(sel(d, ref), ks)
	var terms []string
	for i, lf := range mc.vals {
		a := e.comp(st, lf.suffix, mc.valS[i])
		terms = append(terms, mapSel(sel(a, ref), ks))
	}
	p := 0
	v := e.unflatten(mt.Elem(), terms, &p)
	return present, v
}

func (e *Enc) mapLen(st *State, mt *types.Map, ref string) string {
	mc := e.mapInfo(mt)
	l := e.comp(st, mc.ln, "(Array Int Int)")
	return sel(l, ref)
}

func (e *Enc) mapFacts(st *State, mt *types.Map, ref string, present string) {
	ln := e.mapLen(st, mt, ref)
	e.assume(st, fmt.Sprintf("(and (<= 0 %s) (<= %s 1099511627776) (=> %s (and (>= %s 1) (not (= %s 0)))))", ln, ln, present, ln, ref))
}

func (e *Enc) lookup(fr *Frame, st *State, x *ssa.Lookup) {
	mt, isMap := x.X.Type().Underlying().(*types.Map)
	if !isMap {
		// string index
		s := e.val(fr, st, x.X).term()
		idx := e.val(fr, st, x.Index).term()
		e.boundsCheck(st, fmt.Sprintf("(and (<= 0 %s) (< %s (strlen %s)))", idx, idx, s), "string index in range")
		r := intVal(x.Type(), fmt.Sprintf("(strbyte %s %s)", s, idx))
		e.assume(st, rangeOf(x.Type(), r.term()))
		e.setVal(fr, x, r)
		return
	}
	ref := e.val(fr, st, x.X).term()
	key := e.val(fr, st, x.Index)
	present, v := e.mapGet(st, mt, ref, key)
	present = e.s.FreshDef("present", "Bool", present)
	e.mapFacts(st, mt, ref, present)
	v = e.nameVal(v, "mv")
	e.assume(st, implies(present, e.wf(v, st.alloc)))
	val := e.iteVal(present, v, e.zero(mt.Elem()))
	if x.CommaOk {
		e.setVal(fr, x, &Val{T: x.Type(), K: KTuple, F: []*Val{val, boolVal(present)}})
	} else {
		e.setVal(fr, x, val)
	}
}

func (e *Enc) mapStore(st *State, mt *types.Map, ref string, key, val *Val) {
	mc := e.mapInfo(mt)
	var ks []string
	flatten(key, &ks)
	d := e.comp(st, mc.dom, mc.domS)
	was := e.s.FreshDef("was", "Bool", mapSel(sel(d, ref), ks))
	e.setComp(st, mc.dom, mc.domS, sto(d, ref, mapSto(sel(d, ref), ks, "true")))
	var vs []string
	flatten(val, &vs)
	for i, lf := range mc.vals {
		a := e.comp(st, lf.suffix, mc.valS[i])
		e.setComp(st, lf.suffix, mc.valS[i], sto(a, ref, mapSto(sel(a, ref), ks, vs[i])))
	}
	l := e.comp(st, mc.ln, "(Array Int Int)")
	e.assume(st, fmt.Sprintf("(<= 0 %s)", sel(l, ref)))
	e.setComp(st, mc.ln, "(Array Int Int)", sto(l, ref, fmt.Sprintf("(+ %s %s)", sel(l, ref), ite(was, "0", "1"))))
}

func (e *Enc) mapDelete(st *State, mt *types.Map, ref string, key *Val) {
	mc := e.mapInfo(mt)
	var ks []string
	flatten(key, &ks)
	d := e.comp(st, mc.dom, mc.domS)
	was := e.s.FreshDef("was", "Bool", mapSel(sel(d, ref), ks))
	e.mapFacts(st, mt, ref, was)
	// delete on a nil map is a no-op
	e.setComp(st, mc.dom, mc.domS, ite(eq(ref, "0"), d, sto(d, ref, mapSto(sel(d, ref), ks, "false"))))
	l := e.comp(st, mc.ln, "(Array Int Int)")
	e.setComp(st, mc.ln, "(Array Int Int)", ite(eq(ref, "0"), l, sto(l, ref, fmt.Sprintf("(- %s %s)", sel(l, ref), ite(was, "1", "0")))))
}

func (e *Enc) mapUpdate(fr *Frame, st *State, x *ssa.MapUpdate) {
	mt := x.Map.Type().Underlying().(*types.Map)
	ref := e.val(fr, st, x.Map).term()
	e.boundsCheck(st, fmt.Sprintf("(not (= %s 0))", ref), "assignment to entry in nil map: "+e.w.posOf(x.Pos()))
	e.mapStore(st, mt, ref, e.val(fr, st, x.Key), e.val(fr, st, x.Value))
}

// ---------- range over maps ----------

func itComp(mc *mapComps, rng ssa.Value) (string, string) {
	return "IT:" + mc.mk + "#" + rng.Parent().Name() + "." + rng.Name(), nestArr(mc.ks, "Bool")
}

func (e *Enc) rangeInstr(fr *Frame, st *State, x *ssa.Range) {
	mt, isMap := x.X.Type().Underlying().(*types.Map)
	if !isMap {
		e.unsupported("range over string")
	}
	mc := e.mapInfo(mt)
	id := e.allocObj(st, 1, "iter")
	cn, cs := itComp(mc, x)
	e.setComp(st, cn, cs, constArr(mc.ks, "Bool", "false"))
	e.setComp(st, cn+"#steps", "Int", "0")
	// the domain when the iteration started: the step counter is related to the length only
	// while the domain is still that one (a body that deletes or inserts breaks the relation)
	e.setComp(st, cn+"#dom0", cs, sel(e.comp(st, mc.dom, mc.domS), e.val(fr, st, x.X).term()))
	if fr.iters == nil {
		fr.iters = map[ssa.Value]*iterInfo{}
	}
	fr.iters[x] = &iterInfo{mapVal: e.val(fr, st, x.X), mapType: mt, id: id, comp: cn, compSort: cs}
	fr.vals[x] = intVal(x.Type(), id)
}

func (e *Enc) nextInstr(fr *Frame, st *State, x *ssa.Next) {
	if x.IsString {
		e.unsupported("range over string")
	}
	it := fr.iters[x.Iter]
	if it == nil {
		e.unsupported("iterator without range")
	}
	mt := it.mapType
	mc := e.mapInfo(mt)
	ref := it.mapVal.term()
	vis := e.comp(st, it.comp, it.compSort)
	ok := e.s.Fresh("next.ok", "Bool")
	key := e.fresh(mt.Key(), "next.k")
	var ks []string
	flatten(key, &ks)
	present, v := e.mapGet(st, mt, ref, key)
	v = e.nameVal(v, "next.v")
	d := e.comp(st, mc.dom, mc.domS)
	e.assume(st, implies(ok, and(present, not(mapSel(vis, ks)), e.wf(key, st.alloc), e.wf(v, st.alloc), not(eq(ref, "0")))))
	// exhausted: every key in the domain has been visited
	var bvs, bks []string
	for i, s := range mc.ks {
		n := fmt.Sprintf("k!q%d", i)
		bvs = append(bvs, fmt.Sprintf("(%s %s)", n, s))
		bks = append(bks, n)
	}
	e.assume(st, implies(not(ok), fmt.Sprintf("(forall (%s) (=> %s %s))", strings.Join(bvs, " "),
		mapSel(sel(d, ref), bks), mapSel(vis, bks))))
	e.mapFacts(st, mt, ref, ok)
	// number of keys produced so far: each key is produced at most once
	steps := e.comp(st, it.comp+"#steps", "Int")
	same := eq(sel(d, ref), e.comp(st, it.comp+"#dom0", it.compSort))
	// exhausted, with the domain untouched since the iteration started: the visited set IS the domain
	// (every key produced was present, every present key has been produced)
	e.assume(st, implies(and(not(ok), same), eq(vis, sel(d, ref))))
	e.assume(st, fmt.Sprintf("(and (<= 0 %s) (=> (and %s %s) (< %s %s)) (=> (and (not %s) %s) (= %s %s)))", steps, ok, same, steps, e.mapLen(st, mt, ref), ok, same, steps, e.mapLen(st, mt, ref)))
	e.setComp(st, it.comp+"#steps", "Int", fmt.Sprintf("(+ %s 1)", steps))
	// the visited set after this step (only meaningful when ok)
	e.setComp(st, it.comp, it.compSort, mapSto(vis, ks, "true"))
	e.setVal(fr, x, &Val{T: x.Type(), K: KTuple, F: []*Val{boolVal(ok), key, v}})
}
