package main

import (
	"encoding/json"
	"flag"
	"fmt"
	"go/types"
	"os"
	"path/filepath"
	"regexp"
	"runtime"
	"runtime/debug"
	"sort"
	"strings"
	"sync"
	"time"

	"golang.org/x/tools/go/ssa"
)

type FuncReport struct {
	Key         string
	Pkg         string
	Status      string // ok | unsupported | contract-error
	Msg         string
	Obls        []*Obligation
	Notes       []string
	Trusted     bool
	Props       []string
	s           *Script
	facts       []factRec
	paramSyms   []string
	IntMode     string
	Instrs      int
	Inlined     []string
	enc         *Enc
	fr          *Frame
	contract    *FuncContract
}

var prelude = []string{
	"(declare-fun strlen (Int) Int)",
	"(declare-fun strbyte (Int Int) Int)",
	"(declare-fun strcat (Int Int) Int)",
	"(declare-fun strlt (Int Int) Bool)",
	"(declare-fun substr (Int Int Int) Int)",
	"(declare-fun bitand (Int Int) Int)",
	"(declare-fun bitor (Int Int) Int)",
	"(declare-fun bitxor (Int Int) Int)",
	"(declare-fun bitandnot (Int Int) Int)",
	"(declare-fun bitshl (Int Int) Int)",
	"(declare-fun bitshr (Int Int) Int)",
	"(declare-fun implements (Int Int) Bool)",
	"(declare-fun errroot (Int Int) Int)",
	"(declare-fun errstr (Int Int) Int)",
}

func (w *World) newEnc(fn *ssa.Function, c *FuncContract) *Enc {
	e := &Enc{flt: map[string]fltRec{}, w: w, s: NewScript(), compSort: map[string]string{}, notesSet: map[string]bool{}, strIDs: map[string]int{},
		oblCount: map[string]int{}, callOrd: map[string]int{}}
	e.s.Axioms = append(e.s.Axioms, prelude...)
	e.fnKey = funcKey(fn)
	pk := funcPkgPath(fn)
	short := pk[strings.LastIndex(pk, "/")+1:]
	e.fnName = short + "." + strings.NewReplacer("(", "", ")", "", "*", "").Replace(e.fnKey)
	if c != nil {
		e.props = c.Props
		e.nobounds = c.NoBounds
		e.forkjoin = c.ForkJoin
	}
	return e
}

func (e *Enc) sentinelVal(st *State, g *ssa.Global) *Val {
	tag := e.typeID(types.NewPointer(types.Typ[types.Int])) // stands for *errors.errorString
	val := e.w.globalAddr(g)
	e.assume(st, fmt.Sprintf("(= (errroot %s %s) 0)", tag, val))
	return &Val{T: derefType(g.Type()), K: KIface, S: []string{tag, val}}
}

func (w *World) verifyFunc(fn *ssa.Function, c *FuncContract) (rep *FuncReport) {
	w.scopePkg = funcPkgPath(fn)
	e := w.newEnc(fn, c)
	rep = &FuncReport{Key: e.fnName, Pkg: funcPkgPath(fn), Props: c.Props, s: e.s, IntMode: "Int-with-wrap (machine-exact)"}
	defer func() {
		rep.Notes = e.notes
		if r := recover(); r != nil {
			switch x := r.(type) {
			case unsupportedErr:
				rep.Status = "unsupported"
				rep.Msg = x.msg
			case specErr:
				rep.Status = "contract-error"
				rep.Msg = x.msg
			default:
				rep.Status = "internal-error"
				rep.Msg = fmt.Sprintf("%v\n%s", r, debug.Stack())
			}
			return
		}
	}()
	if fn.Blocks == nil {
		e.unsupported("no body")
	}
	for _, b := range fn.Blocks {
		rep.Instrs += len(b.Instrs)
	}
	alloc0 := e.s.Fresh("alloc0", "Int")
	st := &State{reach: "true", heap: map[string]string{}, alloc: alloc0}
	e.assume(st, fmt.Sprintf("(>= %s %s)", alloc0, pow2(40)))
	fr := &Frame{fn: fn, vals: map[ssa.Value]*Val{}, top: true, contract: c}
	e.top = fr
	rep.enc, rep.fr, rep.contract = e, fr, c
	for _, p := range fn.Params {
		v := e.fresh(p.Type(), "p."+sanitize(p.Name()))
		fr.vals[p] = v
		e.assume(st, e.wf(v, alloc0))
	}
	for _, fv := range fn.FreeVars {
		v := e.fresh(fv.Type(), "fv."+sanitize(fv.Name()))
		fr.vals[fv] = v
		e.assume(st, e.wf(v, alloc0))
	}
	// captured variables are distinct cells
	for i, a := range fn.FreeVars {
		ta := derefType(a.Type())
		if ta == nil {
			continue
		}
		pa := fr.vals[a].term()
		e.assume(st, fmt.Sprintf("(and (> %s 0) (<= (+ %s %d) %s))", pa, pa, sizeOf(ta), alloc0))
		for j := i + 1; j < len(fn.FreeVars); j++ {
			b := fn.FreeVars[j]
			tb := derefType(b.Type())
			if tb == nil {
				continue
			}
			pb := fr.vals[b].term()
			e.assume(st, fmt.Sprintf("(or (<= (+ %s %d) %s) (<= (+ %s %d) %s))", pa, sizeOf(ta), pb, pb, sizeOf(tb), pa))
		}
	}
	e.flush(st)
	fr.entry = st.clone()
	env := &SpecEnv{e: e, cur: st, old: fr.entry, vars: map[string]*Val{}, pkg: funcPkgPath(fn), fr: fr}
	for _, cl := range c.Requires {
		e.specAssume(st, cl.E, env)
		if cl.Free {
			e.note("free (assumed, NOT checked at call sites) precondition of %s: %s", e.fnName, cl.Src)
		}
	}
	for _, cl := range c.CbInv {
		e.specAssume(st, cl.E, env)
	}
	if fn.Parent() != nil {
		for _, cl := range c.Requires {
			e.note("closure precondition (an assumption about the code that invokes the callback): %s", cl.Src)
		}
	}
	e.flush(st)
	// vacuity: the precondition must be satisfiable
	e.obls = append(e.obls, &Obligation{Name: e.fnName + "/vacuity", Kind: "vacuity", Hyp: st.reach, NFacts: len(e.facts), Goal: "", ExpectSat: true, Props: c.Props, Fn: e.fnName, Desc: "requires are satisfiable"})
	fr.entry.reach = st.reach
	if len(c.CbInv) > 0 {
		// callback invariants are proved on every return path separately (no merged heaps)
		e.retHook = func(rst *State, rres *Val) {
			vars := map[string]*Val{}
			e.bindResults(vars, rres, fn.Signature)
			renv := &SpecEnv{e: e, cur: rst, old: fr.entry, vars: vars, pkg: funcPkgPath(fn), fr: fr}
			for _, cl := range c.CbInv {
				st2 := rst.clone()
				e.specOblige(st2, "cbinv-preserve", cl.E, renv, "callback invariant preserved: "+cl.Src, cl.Props)
			}
		}
	}
	final, res := e.runBody(fr, st.clone())
	e.retHook = nil
	e.flush(final)
	if !final.dead() {
		vars := map[string]*Val{}
		for _, p := range fn.Params {
			if p.Name() == "result" {
				vars["result"] = fr.vals[p]
			}
		}
		e.bindResults(vars, res, fn.Signature)
		penv := &SpecEnv{e: e, cur: final, old: fr.entry, vars: vars, pkg: funcPkgPath(fn), fr: fr}
		// ghost assignments at exit
		for _, gs := range c.GhostSets {
			ts := e.evalModTarget(gs.L, penv)
			if len(ts) != 1 || ts[0].kind != "point" {
				panic(specErr{"ghostset target must be a single ghost location: " + gs.LSrc})
			}
			rv := penv.eval(gs.R)
			cur := e.comp(final, ts[0].comp, ts[0].sort)
			e.setComp(final, ts[0].comp, ts[0].sort, sto(cur, ts[0].addr, rv.S[0]))
		}
		for _, cl := range c.Ensures {
			if cl.Free {
				e.note("free (assumed, unverified) postcondition of %s: %s", e.fnName, cl.Src)
				continue
			}
			st2 := final.clone()
			e.specOblige(st2, "post", cl.E, penv, cl.Src, cl.Props)
		}

		if c.NoFrame {
			e.note("frame (modifies clause) of %s is NOT verified (noframe): callers assume it", e.fnName)
		} else {
			e.frameObligations(fr, final, c, penv)
		}
	}
	rep.Status = "ok"
	rep.Obls = e.obls
	rep.facts = e.facts
	return rep
}

// ---------- running obligations ----------

type runCfg struct {
	timeout int
	seed    int
	tmp     string
	par     int
	keep    bool
	prop    string
}

func runObligations(reps []*FuncReport, cfg runCfg) {
	type job struct {
		rep *FuncReport
		o   *Obligation
	}
	var jobs []job
	for _, r := range reps {
		for _, o := range r.Obls {
			// obligations tagged for other properties are not part of this check (they are listed
			// as assumptions in its evidence): do not spend solver time on them
			if cfg.prop != "" && len(o.Props) > 0 && !hasProp(o.Props, cfg.prop) {
				continue
			}
			jobs = append(jobs, job{r, o})
		}
	}
	ch := make(chan job)
	var wg sync.WaitGroup
	for i := 0; i < cfg.par; i++ {
		wg.Add(1)
		go func() {
			defer wg.Done()
			for j := range ch {
				o := j.o
				tag := regexp.MustCompile(`[^A-Za-z0-9_.-]`).ReplaceAllString(o.Name, "_")
				if len(tag) > 120 {
					tag = tag[:120]
				}
				facts := j.rep.facts[:o.NFacts]
				full := []string{o.Hyp}
				for _, f := range facts {
					full = append(full, implies(f.guard, f.f))
				}
				var res SolveResult
				t0 := time.Now()
				defer func(name string) {
					if os.Getenv("GOVC_TIMING") != "" {
						fmt.Fprintf(os.Stderr, "timing %s %.1fs\n", name, time.Since(t0).Seconds())
					}
				}(o.Name)
				if o.ExpectSat {
					// vacuity: a model is expected; "unsat" is the only bad answer, so a short limit suffices
					o.Query = j.rep.s.Query(full, "", nil)
					vt := cfg.timeout
					if vt > 6 {
						vt = 6
					}
					res = Solve(o.Query, vt, cfg.seed, cfg.tmp, tag, []int{0, 1, 2})
				} else {
					// first attempt: hypotheses sliced by relevance (sound: dropping hypotheses
					// can only make a proof harder); fall back to the full set
					sl := j.rep.s.sliceFacts(o.Hyp, o.Goal, facts)
					done := false
					if len(sl) < len(facts) {
						hy := []string{o.Hyp}
						for _, f := range sl {
							hy = append(hy, implies(f.guard, f.f))
						}
						q := j.rep.s.Query(hy, o.Goal, nil)
						t1 := cfg.timeout
						if t1 > 8 {
							t1 = 8
						}
						res = Solve(q, t1, cfg.seed, cfg.tmp, tag+".s", []int{0, 1, 2})
						if res.Status == "unsat" {
							done = true
							o.Sliced = true
							o.Query = q
						}
					}
					if !done {
						o.Query = j.rep.s.Query(full, o.Goal, nil)
						res = Solve(o.Query, cfg.timeout, cfg.seed, cfg.tmp, tag, []int{0, 1, 2})
					}
				}
				o.Result = res
			}
		}()
	}
	for _, j := range jobs {
		ch <- j
	}
	close(ch)
	wg.Wait()
}

// ---------- CLI ----------

type Evidence struct {
	PropertyID  string                 `json:"property_id"`
	Tier        string                 `json:"tier"`
	Seed        int                    `json:"seed"`
	Level       string                 `json:"level"`
	Coverage    map[string]interface{} `json:"coverage"`
	Assumptions []string               `json:"assumptions"`
	WallS       float64                `json:"wall_s"`
	Violations  int                    `json:"violations"`
}

func main() {
	// type checking + SSA construction scale poorly (kernel futex contention was measured
	// at 16 threads in this sandbox: 65 s vs 8 s); the solvers run as separate processes.
	if os.Getenv("GOVC_PROCS") == "" {
		runtime.GOMAXPROCS(2)
	}
	if len(os.Args) < 2 {
		fmt.Fprintln(os.Stderr, "usage: govc check|dump ...")
		os.Exit(2)
	}
	switch os.Args[1] {
	case "check":
		os.Exit(cmdCheck(os.Args[2:]))
	default:
		fmt.Fprintln(os.Stderr, "unknown command")
		os.Exit(2)
	}
}

func hasProp(ps []string, p string) bool {
	for _, x := range ps {
		if x == p {
			return true
		}
	}
	return false
}

func cmdCheck(args []string) int {
	fs := flag.NewFlagSet("check", flag.ExitOnError)
	prop := fs.String("prop", "", "property id (empty: all functions)")
	tier := fs.String("tier", "quick", "quick|thorough")
	root := fs.String("repo", "/repo", "repository root")
	only := fs.String("func", "", "regexp restricting function keys")
	verifDir := fs.String("verif", "/verif", "verif dir")
	timeout := fs.Int("timeout", 0, "per-obligation timeout (s)")
	dumpDir := fs.String("dump", "", "dump queries of failed obligations here")
	verbose := fs.Bool("v", false, "verbose")
	noEvidence := fs.Bool("no-evidence", false, "do not write evidence")
	fs.Parse(args)
	start := time.Now()
	seed := 0
	if s := os.Getenv("VERIF_SEED"); s != "" {
		fmt.Sscanf(s, "%d", &seed)
	}
	if t := os.Getenv("VERIF_TIER"); t != "" && *tier == "" {
		*tier = t
	}
	to := *timeout
	if to == 0 {
		// obligations on the unchanged tree discharge in well under 20 s on an idle machine; the
		// limit is generous so that a loaded machine does not turn a slow proof into a false alarm
		// (a run next to six test-running agents turned 17 s proofs into 40 s ones and timed four out at 45 s)
		to = 150
		if *tier == "thorough" {
			to = 300
		}
	}
	dirs := findContractDirs(*root)
	cs, err := loadContracts(*root, dirs)
	if err != nil {
		fmt.Printf("UNDECIDED contract-parse-error: %v\n", err)
		return 3
	}
	if lint := lintGhostFrames(cs); len(lint) > 0 {
		for _, l := range lint {
			fmt.Printf("LINT %s\n", l)
		}
		if os.Getenv("GOVC_LINT_ONLY") != "" {
			return 0
		}
		fmt.Printf("UNDECIDED contract-error: %d contract(s) constrain ghost state they do not declare modified (see LINT lines)\n", len(lint))
		return 3
	}
	// which packages do we need?
	need := map[string]bool{}
	var selected []string
	var re *regexp.Regexp
	if *only != "" {
		re = regexp.MustCompile(*only)
	}
	for _, k := range sortedKeys(cs.Funcs) {
		c := cs.Funcs[k]
		if *prop != "" && !hasProp(c.Props, *prop) {
			continue
		}
		if re != nil && !re.MatchString(c.Key) {
			continue
		}
		if c.Trusted || strings.HasPrefix(c.Key, "fieldfunc.") || strings.HasPrefix(c.Key, "functype.") {
			if strings.HasPrefix(c.Key, "fieldfunc.") || strings.HasPrefix(c.Key, "functype.") {
				c.Trusted = true
				c.TrustNote = "contract of a function value (assumed for every function stored there)"
			}
			continue
		}
		need[c.Pkg] = true
		selected = append(selected, k)
	}
	if len(selected) == 0 {
		fmt.Printf("UNDECIDED no functions under contract for %s\n", *prop)
		return 3
	}
	var pats []string
	for p := range need {
		pats = append(pats, p)
	}
	sort.Strings(pats)
	w, err := loadWorld(*root, pats, cs)
	if err != nil {
		fmt.Printf("UNDECIDED load-error: %v\n", err)
		return 3
	}
	loadS := time.Since(start).Seconds()
	var reps []*FuncReport
	undecided := 0
	for _, k := range selected {
		c := cs.Funcs[k]
		fn := w.fnIndex[k]
		if fn == nil {
			fmt.Printf("UNDECIDED %s contract-out-of-date: function not found\n", k)
			undecided++
			continue
		}
		rep := w.verifyFunc(fn, c)
		reps = append(reps, rep)
		if rep.Status != "ok" {
			fmt.Printf("UNDECIDED %s %s: %s\n", rep.Key, rep.Status, rep.Msg)
			undecided++
		}
	}
	genS := time.Since(start).Seconds() - loadS
	tmp, _ := os.MkdirTemp("", "govc-q")
	defer os.RemoveAll(tmp)
	runObligations(reps, runCfg{timeout: to, seed: seed, tmp: tmp, par: 6, prop: *prop})
	// report
	total, discharged := 0, 0
	var failed []*Obligation
	backends := map[string]int{}
	var solverTime float64
	var perObl []map[string]interface{}
	var fnames []string
	var assumptions []string
	aset := map[string]bool{}
	addA := func(s string) {
		if !aset[s] {
			aset[s] = true
			assumptions = append(assumptions, s)
		}
	}
	for _, r := range reps {
		fnames = append(fnames, r.Key)
		for _, n := range r.Notes {
			addA(r.Key + ": " + n)
			if strings.Contains(n, "havoc-all") {
				fmt.Printf("NOTE %s: %s\n", r.Key, n)
			}
		}
		for _, o := range r.Obls {
			if *prop != "" && len(o.Props) > 0 && !hasProp(o.Props, *prop) {
				addA(fmt.Sprintf("%s: obligation %s (%s) is tagged %v and is not checked under %s; it is assumed here", r.Key, o.Name, firstN(o.Desc, 120), o.Props, *prop))
				continue
			}
			total++
			ok := false
			if o.ExpectSat {
				ok = o.Result.Status == "sat" || o.Result.Status == "unknown" || o.Result.Status == "timeout"
				if o.Result.Status == "unsat" {
					ok = false
				}
			} else {
				ok = o.Result.Status == "unsat"
			}
			solverTime += o.Result.Seconds
			if ok {
				discharged++
				backends[o.Result.Backend]++
			} else {
				failed = append(failed, o)
			}
			perObl = append(perObl, map[string]interface{}{"name": o.Name, "status": o.Result.Status, "backend": o.Result.Backend, "seconds": round3(o.Result.Seconds)})
			if *verbose {
				fmt.Printf("  %-70s %-8s %-10s %.2fs\n", o.Name, o.Result.Status, o.Result.Backend, o.Result.Seconds)
			}
		}
	}
	// trusted contracts used
	for _, k := range sortedKeys(cs.Funcs) {
		c := cs.Funcs[k]
		if c.Trusted && (need[c.Pkg]) {
			addA("assumed contract (not verified): " + k + " " + c.TrustNote)
		}
	}
	for _, k := range sortedKeys(cs.Scoped) {
		c := cs.Scoped[k]
		if need[c.SpecPkg] {
			addA("assumed contract (not verified): " + c.Pkg + "::" + c.Key + " as declared in " + c.SpecPkg + " (" + c.TrustNote + ")")
		}
	}
	known := loadKnown(filepath.Join(*verifDir, "known_findings.json"))
	violations := 0
	exit := 0
	pid := *prop
	if pid == "" {
		pid = "ALL"
	}
	// replay the counterexamples of sat obligations against the real code
	if os.Getenv("GOVC_NO_REPLAY") == "" {
		repOf := map[*Obligation]*FuncReport{}
		for _, r := range reps {
			for _, o := range r.Obls {
				repOf[o] = r
			}
		}
		var todo []*Obligation
		for _, o := range failed {
			if known.match(pid, o.Name) != nil {
				continue
			}
			if o.Result.Status == "sat" && !o.ExpectSat {
				todo = append(todo, o)
			} else {
				o.replay = &replayResult{Note: "no model: the solvers answered " + o.Result.Status + " (quantified or too hard); nothing to replay"}
			}
		}
		maxReplay := 8
		var wg sync.WaitGroup
		sem := make(chan struct{}, 3)
		for i, o := range todo {
			if i >= maxReplay {
				o.replay = &replayResult{Note: "replay not attempted: more than 8 failing obligations in this run"}
				continue
			}
			wg.Add(1)
			go func(o *Obligation) {
				defer wg.Done()
				sem <- struct{}{}
				defer func() { <-sem }()
				r := w.replayObligation(repOf[o], o, *root, 30)
				o.replay = &r
				o.replayConfirmed = r.Confirmed
			}(o)
		}
		wg.Wait()
	}
	for _, o := range failed {
		if kf := known.match(pid, o.Name); kf != nil {
			fmt.Printf("KNOWN-FINDING: property=%s %s (%s)\n", pid, o.Name, kf.What)
			continue
		}
		violations++
		rp := writeReplay(*verifDir, pid, o, w)
		suffix := ""
		if !o.replayConfirmed {
			suffix = " no-failing-input-found"
		}
		fmt.Printf("VIOLATION property=%s replay=%s obligation=%s status=%s clause=%q%s\n", pid, rp, o.Name, o.Result.Status, o.Desc, suffix)
		if *dumpDir != "" {
			os.MkdirAll(*dumpDir, 0o755)
			tag := regexp.MustCompile(`[^A-Za-z0-9_.-]`).ReplaceAllString(o.Name, "_")
			os.WriteFile(filepath.Join(*dumpDir, tag+".smt2"), []byte(o.Query), 0o644)
		}
		exit = 1
	}
	// functions whose contract no longer resolves (a renamed local, a loop that is gone, an
	// unsupported construct) are reported as UNDECIDED above and are not counted as proved; they are
	// not violations either: the exit status is that of the functions that could be decided. Only when
	// nothing at all could be decided is the run itself undecided.
	if undecided > 0 && exit == 0 && undecided >= len(selected) {
		exit = 3
	}
	wall := time.Since(start).Seconds()
	fmt.Printf("govc: property=%s tier=%s functions=%d obligations=%d discharged=%d failed=%d undecided-functions=%d load=%.1fs gen=%.1fs wall=%.1fs\n",
		pid, *tier, len(reps), total, discharged, len(failed), undecided, loadS, genS, wall)
	if !*noEvidence && *prop != "" {
		var samples []interface{}
		// samples: the first obligation of every kind, then postconditions of up to eight functions
		seenKind := map[string]bool{}
		for _, r := range reps {
			nPost := 0
			for _, o := range r.Obls {
				kind := o.Kind
				if i := strings.Index(kind, ":"); i >= 0 {
					kind = kind[:i]
				}
				take := !seenKind[kind]
				if !take && kind == "post" && nPost == 0 && len(samples) < 24 {
					take = true
				}
				if !take {
					continue
				}
				seenKind[kind] = true
				if kind == "post" {
					nPost++
				}
				samples = append(samples, map[string]interface{}{"obligation": o.Name, "kind": o.Kind, "clause": firstN(o.Desc, 400), "status": o.Result.Status, "backend": o.Result.Backend, "seconds": round3(o.Result.Seconds)})
			}
		}
		sort.Strings(fnames)
		addA("T-govc: go/packages + go/ssa v0.29.0, the govc translation, z3 4.8.12 / z3 5.1.0 / cvc5 1.0.3 are trusted")
		addA("T-panic: ILogger.Panicf and panic() do not return (fail-stop); nil dereference is fail-stop")
		addA("T-seq: sequential reasoning per function; goroutine interleavings are not modelled")
		ev := Evidence{PropertyID: *prop, Tier: *tier, Seed: seed, Level: "proof", WallS: round3(wall), Violations: violations,
			Assumptions: assumptions,
			Coverage: map[string]interface{}{
				"obligations":              total,
				"discharged":               discharged,
				"checker_cmd":              "/verif/check " + *prop + " --tier " + *tier,
				"trusted_base":             []string{"golang.org/x/tools/go/ssa v0.29.0", "govc VC generator (/verif/engine)", "z3 4.8.12", "z3 5.1.0", "cvc5 1.0.3", "assumed contracts listed under assumptions"},
				"functions_under_contract": fnames,
				"backends":                 backends,
				"solver_time_s":            round3(solverTime),
				"per_obligation":           perObl,
				"int_mode":                 "SMT Int with exact machine wrap-around per Go type (never mathematical integers for program arithmetic)",
				"samples":                  samples,
				"undecided_functions":      undecided,
				"explanation":              "every obligation (pre@call, post, frame, loop invariant entry/preserve, bounds, vacuity) generated from the go/ssa form of /repo's current tree for the functions under contract; discharged == obligations iff all were proved unsat by an SMT back end",
			}}
		os.MkdirAll(filepath.Join(*verifDir, "evidence"), 0o755)
		b, _ := json.MarshalIndent(ev, "", " ")
		os.WriteFile(filepath.Join(*verifDir, "evidence", *prop+".json"), b, 0o644)
	}
	return exit
}

func round3(f float64) float64 { return float64(int(f*1000)) / 1000 }

func sortedKeys(m map[string]*FuncContract) []string {
	var ks []string
	for k := range m {
		ks = append(ks, k)
	}
	sort.Strings(ks)
	return ks
}

// ---------- known findings ----------

type KnownFinding struct {
	Property   string `json:"property"`
	Obligation string `json:"obligation"`
	What       string `json:"what"`
	Status     string `json:"status"` // known | fixed
}
type Known struct {
	Findings []KnownFinding `json:"findings"`
}

func loadKnown(path string) *Known {
	k := &Known{}
	b, err := os.ReadFile(path)
	if err != nil {
		return k
	}
	json.Unmarshal(b, k)
	return k
}

func (k *Known) match(prop, obl string) *KnownFinding {
	for i := range k.Findings {
		f := &k.Findings[i]
		if f.Status == "fixed" {
			continue
		}
		if f.Property == prop && f.Obligation == obl {
			return f
		}
	}
	return nil
}

func writeReplay(verifDir, prop string, o *Obligation, w *World) string {
	dir := filepath.Join(verifDir, "replay", prop)
	os.MkdirAll(dir, 0o755)
	tag := regexp.MustCompile(`[^A-Za-z0-9_.-]`).ReplaceAllString(o.Name, "_")
	p := filepath.Join(dir, tag+".json")
	m := map[string]interface{}{
		"property":   prop,
		"obligation": o.Name,
		"kind":       o.Kind,
		"clause":     o.Desc,
		"status":     o.Result.Status,
		"backend":    o.Result.Backend,
		"solver_output": firstN(o.Result.Output, 4000),
		"replayed":   o.replayConfirmed,
		"note":       "the failed obligation was generated from /repo's current source; see solver_output for the model (if any)",
	}
	if o.replay != nil {
		m["replay_verdict"] = o.replay.Note
		if len(o.replay.Approx) > 0 {
			m["replay_input_approximations"] = o.replay.Approx
		}
		if o.replay.TestOut != "" {
			m["replay_test_output"] = o.replay.TestOut
		}
		if o.replay.Source != "" {
			sp := filepath.Join(dir, tag+"_replay_test.go.txt")
			os.WriteFile(sp, []byte(o.replay.Source), 0o644)
			m["replay_test_source"] = sp
			m["replay_how"] = "in-package test built from the solver's model; run with: go test -overlay <json mapping <pkgdir>/zz_govc_replay_case_test.go to this file and <pkgdir>/zz_govc_replay_rt_test.go to engine/cmd/govc/replayrt/rt.go.txt (package clause adjusted)> -vet=off -run TestGovcReplay <pkgdir>"
		}
	}
	b, _ := json.MarshalIndent(m, "", " ")
	os.WriteFile(p, b, 0o644)
	return p
}
