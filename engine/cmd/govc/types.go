package main

// Value representation and memory layout.

import (
	"fmt"
	"go/types"
	"math/big"
	"strings"
)

type Kind int

const (
	KInt Kind = iota
	KBool
	KSlice // S = ptr,len,cap
	KIface // S = tag,val
	KStruct
	KTuple
	KArr  // spec-level SMT array (ghost sets/maps), S[0] = array term
	KUnit // no value
)

type Val struct {
	T    types.Type
	K    Kind
	S    []string
	F    []*Val
	Comp string // static component for pointer-to-leaf values ("" => by type)
	// static closure info
	Fn   interface{} // *ssa.Function
	Bind []*Val
	Sort string // for KArr
	ET   types.Type // element type of a typed ghost map (KArr)
	Math bool   // spec-level mathematical integer
}

func (v *Val) term() string {
	if v.K != KInt && v.K != KBool && v.K != KArr {
		panic(fmt.Sprintf("term() on composite value kind %d type %v", v.K, v.T))
	}
	return v.S[0]
}

func intVal(t types.Type, s string) *Val  { return &Val{T: t, K: KInt, S: []string{s}} }
func boolVal(s string) *Val               { return &Val{T: types.Typ[types.Bool], K: KBool, S: []string{s}} }
func mathInt(s string) *Val               { return &Val{K: KInt, S: []string{s}, Math: true} }
func unitVal() *Val                       { return &Val{K: KUnit} }

func kindOf(t types.Type) Kind {
	switch u := t.Underlying().(type) {
	case *types.Basic:
		if u.Info()&types.IsBoolean != 0 {
			return KBool
		}
		return KInt
	case *types.Slice:
		return KSlice
	case *types.Interface:
		return KIface
	case *types.Struct:
		return KStruct
	case *types.Array:
		return KStruct
	case *types.Tuple:
		if u.Len() == 0 {
			return KUnit
		}
		return KTuple
	}
	return KInt
}

const maxArrayVal = 64

// Layout: all leaf fields of a struct live at the struct's own address (each in its own
// component); nested struct / array fields get sub-addresses base+1.. . A struct with only
// leaf fields therefore has size 1, and []T of such structs has stride 1.
func isNestedField(t types.Type) bool {
	switch t.Underlying().(type) {
	case *types.Struct, *types.Array:
		return true
	}
	return false
}

func sizeOf(t types.Type) int64 {
	switch u := t.Underlying().(type) {
	case *types.Struct:
		var n int64 = 1
		for i := 0; i < u.NumFields(); i++ {
			if isNestedField(u.Field(i).Type()) {
				n += sizeOf(u.Field(i).Type())
			}
		}
		return n
	case *types.Array:
		n := u.Len() * sizeOf(u.Elem())
		if n < 1 {
			n = 1
		}
		return n
	}
	return 1
}

func fieldOff(st *types.Struct, idx int) int64 {
	if !isNestedField(st.Field(idx).Type()) {
		return 0
	}
	var n int64 = 1
	for i := 0; i < idx; i++ {
		if isNestedField(st.Field(i).Type()) {
			n += sizeOf(st.Field(i).Type())
		}
	}
	return n
}

func mulK(k int64, t string) string {
	if k == 1 {
		return t
	}
	if isLiteral(t) {
		var n int64
		fmt.Sscanf(t, "%d", &n)
		return fmt.Sprintf("%d", k*n)
	}
	return fmt.Sprintf("(* %d %s)", k, t)
}

func elemAddr(ptr string, k int64, idx string) string {
	if idx == "0" {
		return ptr
	}
	return fmt.Sprintf("(+ %s %s)", ptr, mulK(k, idx))
}

func typeKey(t types.Type) string {
	s := types.TypeString(t, func(p *types.Package) string { return p.Path() })
	s = strings.ReplaceAll(s, "github.com/lni/dragonboat/v4/", "")
	s = strings.ReplaceAll(s, " ", "")
	s = strings.ReplaceAll(s, "|", "!")
	return s
}

func sym(s string) string {
	for i := 0; i < len(s); i++ {
		if !isSymChar(s[i]) {
			return "|" + s + "|"
		}
	}
	return s
}

// structKey names the struct type for field components.
func structKey(t types.Type) string {
	return typeKey(t)
}

// leaves of a non-struct type: suffix + sort
type leaf struct {
	suffix string
	sort   string
}

func leavesOf(t types.Type) []leaf {
	switch kindOf(t) {
	case KBool:
		return []leaf{{"", "Bool"}}
	case KSlice:
		return []leaf{{"#ptr", "Int"}, {"#len", "Int"}, {"#cap", "Int"}}
	case KIface:
		return []leaf{{"#tag", "Int"}, {"#val", "Int"}}
	case KInt:
		return []leaf{{"", "Int"}}
	}
	panic("leavesOf composite " + t.String())
}

var two = big.NewInt(2)

func pow2(n int) string {
	return new(big.Int).Exp(two, big.NewInt(int64(n)), nil).String()
}

// integer type info: bits, signed. ok=false for non-integer KInt types.
func intInfo(t types.Type) (bits int, signed bool, ok bool) {
	b, isb := t.Underlying().(*types.Basic)
	if !isb {
		return 0, false, false
	}
	switch b.Kind() {
	case types.Int, types.Int64:
		return 64, true, true
	case types.Int32:
		return 32, true, true
	case types.Int16:
		return 16, true, true
	case types.Int8:
		return 8, true, true
	case types.Uint, types.Uint64, types.Uintptr:
		return 64, false, true
	case types.Uint32:
		return 32, false, true
	case types.Uint16:
		return 16, false, true
	case types.Uint8:
		return 8, false, true
	case types.UntypedInt, types.UntypedRune:
		return 0, true, false
	}
	return 0, false, false
}

func rangeOf(t types.Type, x string) string {
	bits, signed, ok := intInfo(t)
	if !ok {
		return "true"
	}
	if signed {
		return fmt.Sprintf("(and (<= (- %s) %s) (< %s %s))", pow2(bits-1), x, x, pow2(bits-1))
	}
	return fmt.Sprintf("(and (<= 0 %s) (< %s %s))", x, x, pow2(bits))
}

// wrap an arbitrary mathematical Int term into the range of t, assuming it is within one
// modulus of the range (add/sub of in-range operands).
func wrap1(t types.Type, x string) string {
	bits, signed, ok := intInfo(t)
	if !ok {
		return x
	}
	m := pow2(bits)
	if signed {
		h := pow2(bits - 1)
		return fmt.Sprintf("(let ((w!x %s)) (ite (>= w!x %s) (- w!x %s) (ite (< w!x (- %s)) (+ w!x %s) w!x)))", x, h, m, h, m)
	}
	return fmt.Sprintf("(let ((w!x %s)) (ite (>= w!x %s) (- w!x %s) (ite (< w!x 0) (+ w!x %s) w!x)))", x, m, m, m)
}

// full modular wrap (for products, shifts, conversions)
func wrapMod(t types.Type, x string) string {
	bits, signed, ok := intInfo(t)
	if !ok {
		return x
	}
	m := pow2(bits)
	if signed {
		h := pow2(bits - 1)
		return fmt.Sprintf("(let ((w!m (mod %s %s))) (ite (>= w!m %s) (- w!m %s) w!m))", x, m, h, m)
	}
	return fmt.Sprintf("(mod %s %s)", x, m)
}

func isUnsigned(t types.Type) bool {
	_, s, ok := intInfo(t)
	return ok && !s
}

func isString(t types.Type) bool {
	b, ok := t.Underlying().(*types.Basic)
	return ok && b.Info()&types.IsString != 0
}

func isFloat(t types.Type) bool {
	b, ok := t.Underlying().(*types.Basic)
	return ok && b.Info()&(types.IsFloat|types.IsComplex) != 0
}

func isPointer(t types.Type) bool {
	_, ok := t.Underlying().(*types.Pointer)
	return ok
}

func derefType(t types.Type) types.Type {
	if p, ok := t.Underlying().(*types.Pointer); ok {
		return p.Elem()
	}
	return nil
}

func elemType(t types.Type) types.Type {
	switch u := t.Underlying().(type) {
	case *types.Slice:
		return u.Elem()
	case *types.Array:
		return u.Elem()
	case *types.Pointer:
		if a, ok := u.Elem().Underlying().(*types.Array); ok {
			return a.Elem()
		}
	case *types.Map:
		return u.Elem()
	}
	return nil
}
