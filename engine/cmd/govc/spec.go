package main

// Contract files (comment-only, //go:build verif) and the spec expression language.

import (
	"fmt"
	"os"
	"path/filepath"
	"regexp"
	"strconv"
	"strings"
)

// ---------- expression AST ----------

type SExpr struct {
	Op   string   // ident, num, bin, un, sel, idx, slice, call, old, quant, nil, true, false, str
	Name string   // ident name / operator / field / quantifier kind
	Num  string   // numeral
	Args []*SExpr // operands
	// quant
	Vars  []string
	VTyps []string
	Pos   string
}

func (e *SExpr) String() string {
	switch e.Op {
	case "ident":
		return e.Name
	case "num":
		return e.Num
	case "str":
		return strconv.Quote(e.Name)
	case "bin":
		return "(" + e.Args[0].String() + " " + e.Name + " " + e.Args[1].String() + ")"
	case "un":
		return e.Name + e.Args[0].String()
	case "sel":
		return e.Args[0].String() + "." + e.Name
	case "idx":
		return e.Args[0].String() + "[" + e.Args[1].String() + "]"
	case "slice":
		lo, hi := "", ""
		if e.Args[1] != nil {
			lo = e.Args[1].String()
		}
		if e.Args[2] != nil {
			hi = e.Args[2].String()
		}
		return e.Args[0].String() + "[" + lo + ":" + hi + "]"
	case "call":
		var as []string
		for _, a := range e.Args[1:] {
			as = append(as, a.String())
		}
		return e.Args[0].String() + "(" + strings.Join(as, ", ") + ")"
	case "old":
		return "old(" + e.Args[0].String() + ")"
	case "quant":
		var vs []string
		for i := range e.Vars {
			vs = append(vs, e.Vars[i]+" "+e.VTyps[i])
		}
		return "(" + e.Name + " " + strings.Join(vs, ", ") + " :: " + e.Args[0].String() + ")"
	}
	return e.Op
}

type tok struct {
	k string // id num op str eof
	s string
}

type lexer struct {
	toks []tok
	p    int
	src  string
}

var ops = []string{"<==>", "==>", "::", "==", "!=", "<=", ">=", "&&", "||", "<<", ">>", "&^",
	"+", "-", "*", "/", "%", "<", ">", "!", "(", ")", "[", "]", ".", ",", ":", "&", "|", "^", "{", "}"}

func lex(src string) ([]tok, error) {
	var out []tok
	i := 0
	for i < len(src) {
		c := src[i]
		if c == ' ' || c == '\t' || c == '\n' {
			i++
			continue
		}
		if c == '"' {
			j := i + 1
			for j < len(src) && src[j] != '"' {
				j++
			}
			out = append(out, tok{"str", src[i+1 : j]})
			i = j + 1
			continue
		}
		if c >= '0' && c <= '9' {
			j := i
			for j < len(src) && (src[j] >= '0' && src[j] <= '9' || src[j] == 'x' || src[j] >= 'a' && src[j] <= 'f' || src[j] >= 'A' && src[j] <= 'F' || src[j] == '_') {
				j++
			}
			out = append(out, tok{"num", src[i:j]})
			i = j
			continue
		}
		if c == '_' || c == '$' || c >= 'a' && c <= 'z' || c >= 'A' && c <= 'Z' {
			j := i
			for j < len(src) && (src[j] == '_' || src[j] == '$' || src[j] >= 'a' && src[j] <= 'z' || src[j] >= 'A' && src[j] <= 'Z' || src[j] >= '0' && src[j] <= '9') {
				j++
			}
			out = append(out, tok{"id", src[i:j]})
			i = j
			continue
		}
		matched := false
		for _, o := range ops {
			if strings.HasPrefix(src[i:], o) {
				out = append(out, tok{"op", o})
				i += len(o)
				matched = true
				break
			}
		}
		if !matched {
			return nil, fmt.Errorf("bad character %q in %q", c, src)
		}
	}
	out = append(out, tok{"eof", ""})
	return out, nil
}

type parser struct {
	toks []tok
	p    int
	src  string
}

func (p *parser) peek() tok { return p.toks[p.p] }
func (p *parser) next() tok { t := p.toks[p.p]; p.p++; return t }
func (p *parser) isOp(s string) bool {
	t := p.peek()
	return t.k == "op" && t.s == s
}
func (p *parser) isID(s string) bool {
	t := p.peek()
	return t.k == "id" && t.s == s
}
func (p *parser) expect(s string) {
	t := p.next()
	if t.s != s {
		panic(fmt.Sprintf("spec parse: expected %q got %q in %q", s, t.s, p.src))
	}
}

func ParseSpecExpr(src string) (e *SExpr, err error) {
	toks, err := lex(src)
	if err != nil {
		return nil, err
	}
	p := &parser{toks: toks, src: src}
	defer func() {
		if r := recover(); r != nil {
			err = fmt.Errorf("%v", r)
		}
	}()
	e = p.expr()
	if p.peek().k != "eof" {
		panic(fmt.Sprintf("spec parse: trailing %q in %q", p.peek().s, src))
	}
	return e, nil
}

func (p *parser) typeName() string {
	// simple type names: ident, ident.ident, []T, *T
	s := ""
	for p.isOp("[") || p.isOp("*") {
		if p.isOp("[") {
			p.next()
			p.expect("]")
			s += "[]"
		} else {
			p.next()
			s += "*"
		}
	}
	t := p.next()
	if t.k != "id" {
		panic("spec parse: type name expected in " + p.src)
	}
	s += t.s
	if p.isOp(".") {
		p.next()
		s += "." + p.next().s
	}
	return s
}

func (p *parser) expr() *SExpr {
	if p.isID("forall") || p.isID("exists") {
		q := p.next().s
		e := &SExpr{Op: "quant", Name: q}
		for {
			v := p.next()
			if v.k != "id" {
				panic("spec parse: quantifier var expected in " + p.src)
			}
			ty := p.typeName()
			e.Vars = append(e.Vars, v.s)
			e.VTyps = append(e.VTyps, ty)
			if p.isOp(",") {
				p.next()
				continue
			}
			break
		}
		p.expect("::")
		e.Args = []*SExpr{p.expr()}
		return e
	}
	return p.iff()
}

func (p *parser) iff() *SExpr {
	l := p.impl()
	for p.isOp("<==>") {
		p.next()
		r := p.impl()
		l = &SExpr{Op: "bin", Name: "<==>", Args: []*SExpr{l, r}}
	}
	return l
}

func (p *parser) impl() *SExpr {
	l := p.orE()
	if p.isOp("==>") {
		p.next()
		var r *SExpr
		if p.isID("forall") || p.isID("exists") {
			r = p.expr()
		} else {
			r = p.impl()
		}
		return &SExpr{Op: "bin", Name: "==>", Args: []*SExpr{l, r}}
	}
	return l
}

func (p *parser) orE() *SExpr {
	l := p.andE()
	for p.isOp("||") {
		p.next()
		r := p.andE()
		l = &SExpr{Op: "bin", Name: "||", Args: []*SExpr{l, r}}
	}
	return l
}

func (p *parser) andE() *SExpr {
	l := p.cmp()
	for p.isOp("&&") {
		p.next()
		var r *SExpr
		if p.isID("forall") || p.isID("exists") {
			r = p.expr()
		} else {
			r = p.cmp()
		}
		l = &SExpr{Op: "bin", Name: "&&", Args: []*SExpr{l, r}}
	}
	return l
}

func (p *parser) cmp() *SExpr {
	l := p.add()
	for {
		t := p.peek()
		if t.k == "op" && (t.s == "==" || t.s == "!=" || t.s == "<" || t.s == "<=" || t.s == ">" || t.s == ">=") {
			p.next()
			r := p.add()
			l = &SExpr{Op: "bin", Name: t.s, Args: []*SExpr{l, r}}
			continue
		}
		if t.k == "id" && t.s == "in" {
			p.next()
			r := p.add()
			l = &SExpr{Op: "bin", Name: "in", Args: []*SExpr{l, r}}
			continue
		}
		break
	}
	return l
}

func (p *parser) add() *SExpr {
	l := p.mul()
	for p.isOp("+") || p.isOp("-") || p.isOp("|") || p.isOp("^") {
		o := p.next().s
		r := p.mul()
		l = &SExpr{Op: "bin", Name: o, Args: []*SExpr{l, r}}
	}
	return l
}

func (p *parser) mul() *SExpr {
	l := p.unary()
	for p.isOp("*") || p.isOp("/") || p.isOp("%") || p.isOp("&") || p.isOp("<<") || p.isOp(">>") {
		o := p.next().s
		r := p.unary()
		l = &SExpr{Op: "bin", Name: o, Args: []*SExpr{l, r}}
	}
	return l
}

func (p *parser) unary() *SExpr {
	if p.isOp("!") {
		p.next()
		return &SExpr{Op: "un", Name: "!", Args: []*SExpr{p.unary()}}
	}
	if p.isOp("-") {
		p.next()
		return &SExpr{Op: "un", Name: "-", Args: []*SExpr{p.unary()}}
	}
	if p.isOp("*") {
		p.next()
		return &SExpr{Op: "un", Name: "*", Args: []*SExpr{p.unary()}}
	}
	if p.isOp("&") {
		p.next()
		return &SExpr{Op: "un", Name: "&", Args: []*SExpr{p.unary()}}
	}
	return p.postfix()
}

func (p *parser) postfix() *SExpr {
	e := p.primary()
	for {
		if p.isOp(".") {
			p.next()
			f := p.next()
			e = &SExpr{Op: "sel", Name: f.s, Args: []*SExpr{e}}
			continue
		}
		if p.isOp("[") {
			p.next()
			var lo, hi *SExpr
			if p.isOp(":") {
				p.next()
				if !p.isOp("]") {
					hi = p.expr()
				}
				p.expect("]")
				e = &SExpr{Op: "slice", Args: []*SExpr{e, nil, hi}}
				continue
			}
			lo = p.expr()
			if p.isOp(":") {
				p.next()
				if !p.isOp("]") {
					hi = p.expr()
				}
				p.expect("]")
				e = &SExpr{Op: "slice", Args: []*SExpr{e, lo, hi}}
				continue
			}
			p.expect("]")
			e = &SExpr{Op: "idx", Args: []*SExpr{e, lo}}
			continue
		}
		if p.isOp("(") {
			p.next()
			args := []*SExpr{e}
			for !p.isOp(")") {
				args = append(args, p.expr())
				if p.isOp(",") {
					p.next()
				}
			}
			p.expect(")")
			if e.Op == "ident" && e.Name == "old" {
				if len(args) != 2 {
					panic("old takes one argument")
				}
				e = &SExpr{Op: "old", Args: []*SExpr{args[1]}}
			} else {
				e = &SExpr{Op: "call", Args: args}
			}
			continue
		}
		break
	}
	return e
}

func (p *parser) primary() *SExpr {
	t := p.next()
	switch t.k {
	case "num":
		s := strings.ReplaceAll(t.s, "_", "")
		if strings.HasPrefix(s, "0x") {
			v, err := strconv.ParseUint(s[2:], 16, 64)
			if err != nil {
				panic(err)
			}
			s = strconv.FormatUint(v, 10)
		}
		return &SExpr{Op: "num", Num: s}
	case "str":
		return &SExpr{Op: "str", Name: t.s}
	case "id":
		switch t.s {
		case "nil":
			return &SExpr{Op: "nil"}
		case "true":
			return &SExpr{Op: "true"}
		case "false":
			return &SExpr{Op: "false"}
		}
		return &SExpr{Op: "ident", Name: t.s}
	case "op":
		if t.s == "(" {
			e := p.expr()
			p.expect(")")
			return e
		}
	}
	panic(fmt.Sprintf("spec parse: unexpected %q in %q", t.s, p.src))
}

// ---------- contract files ----------

type Clause struct {
	Kind  string // requires ensures modifies invariant decreases ...
	Src   string
	E     *SExpr
	Props []string // optional property tags restricting the clause
	Loop  int
	Line  string
	Free  bool // "free" clause: assumed, not checked (listed as assumption)
}

type FuncContract struct {
	Key       string // canonical function key, e.g. "(*inMemory).merge" or "min"
	Pkg       string
	Props     []string
	Requires  []*Clause
	Ensures   []*Clause
	Modifies  []*Clause
	LoopInv   map[int][]*Clause
	LoopMod   map[int][]*Clause
	Trusted   bool // assumed contract (body not verified)
	Inline    bool // force inlining
	NoBounds  bool
	ForkJoin  bool // go statements run at the go statement (fork-join discipline, race obligations generated)
	NoFrame   bool
	SpecPkg   string // package in whose scope the clauses are resolved (extern contracts)
	Pure      bool
	File      string
	Opaque    bool
	Mode      string
	Unroll    map[int]int
	GhostSets []*GhostSet
	Lemmas    []*Clause // "assert" hints, unused
	CbInv     []*Clause // callback invariants (closures)
	LoopStep  map[int][]*Clause
	TrustNote string
	recvName  string
}

// GhostSet: "ghostset L := R" — a ghost assignment performed at function exit (R is
// evaluated in the exit state, old() refers to the entry state).
type GhostSet struct {
	LSrc, RSrc string
	L, R       *SExpr
	Props      []string
}

type PureFunc struct {
	Name    string
	Recv    string // receiver param name ("" for plain)
	RecvTyp string
	Params  []string
	PTyps   []string
	Body    *SExpr
	Src     string
	Pkg     string
}

type GhostField struct {
	Pkg, Type, Field, Typ string
	ExtPkg string // last path element of the package of an external type (ghost field cache.OrderedCache.f)
}

type Contracts struct {
	Funcs  map[string]*FuncContract // key: pkgpath + "::" + funckey
	Pures  map[string]*PureFunc     // key: pkgpath::name or pkgpath::(T).name
	Ghosts []GhostField
	GVars  []GhostField
	Files  []string
	Assume []string // textual list of assumed contracts for evidence
	Scoped map[string]*FuncContract // extern contracts by declaring package: specPkg|pkg::key
	Ambig  map[string]bool          // extern keys declared (differently) by more than one package
}

var kwRe = regexp.MustCompile(`^(func|iface|extern|requires|ensures|modifies|loop|pred|pure|ghostset|ghost|trusted|inline|props|nobounds|noframe|forkjoin|free|mode|opaque|invariant)\b`)

func loadContracts(root string, pkgDirs map[string]string) (*Contracts, error) {
	cs := &Contracts{Funcs: map[string]*FuncContract{}, Pures: map[string]*PureFunc{}, Scoped: map[string]*FuncContract{}, Ambig: map[string]bool{}}
	for pkgPath, dir := range pkgDirs {
		fn := filepath.Join(dir, "zz_contracts_verif.go")
		data, err := os.ReadFile(fn)
		if err != nil {
			continue
		}
		cs.Files = append(cs.Files, fn)
		if err := cs.parseFile(pkgPath, fn, string(data)); err != nil {
			return nil, err
		}
	}
	return cs, nil
}

func splitProps(s string) (string, []string) {
	// trailing [C19 C02]
	s = strings.TrimSpace(s)
	if strings.HasSuffix(s, "]") {
		if i := strings.LastIndex(s, "["); i >= 0 {
			inner := s[i+1 : len(s)-1]
			ok := true
			fs := strings.Fields(inner)
			for _, f := range fs {
				if !regexp.MustCompile(`^C[0-9]{2,3}$`).MatchString(f) {
					ok = false
				}
			}
			if ok && len(fs) > 0 {
				return strings.TrimSpace(s[:i]), fs
			}
		}
	}
	return s, nil
}

func (cs *Contracts) parseFile(pkgPath, fn, data string) error {
	// gather logical lines
	var lines []string
	for _, raw := range strings.Split(data, "\n") {
		t := strings.TrimSpace(raw)
		if !strings.HasPrefix(t, "//@") {
			continue
		}
		body := strings.TrimSpace(t[3:])
		if body == "" || strings.HasPrefix(body, "#") {
			continue
		}
		if kwRe.MatchString(body) || len(lines) == 0 {
			lines = append(lines, body)
		} else {
			lines[len(lines)-1] += " " + body
		}
	}
	var cur *FuncContract
	for _, ln := range lines {
		kw := kwRe.FindString(ln)
		rest := strings.TrimSpace(ln[len(kw):])
		free := false
		if kw == "free" {
			free = true
			kw = kwRe.FindString(rest)
			rest = strings.TrimSpace(rest[len(kw):])
		}
		switch kw {
		case "extern":
			// extern <pkgpath> (recv Type) Method  — assumed contract of a method of an external package
			fs := strings.SplitN(rest, " ", 2)
			if len(fs) != 2 {
				return fmt.Errorf("%s: bad extern %s", fn, ln)
			}
			sig, props := splitProps(fs[1])
			key := canonFuncKey(sig)
			cur = &FuncContract{Key: key, Pkg: fs[0], Props: props, LoopInv: map[int][]*Clause{}, LoopMod: map[int][]*Clause{}, File: fn, Unroll: map[int]int{}, Trusted: true, SpecPkg: pkgPath}
			if strings.HasPrefix(sig, "(") {
				if rf := strings.Fields(sig[1:strings.Index(sig, ")")]); len(rf) == 2 {
					cur.recvName = rf[0]
				}
			}
			cur.TrustNote = "external package " + fs[0]
			// an extern contract applies to calls made from the package that declares it; it is
			// also the default for other packages unless two packages declare the same callee
			ek := fs[0] + "::" + key
			if _, dup := cs.Scoped[pkgPath+"|"+ek]; dup {
				// a later declaration used to replace an earlier one silently (a bare re-declaration once hid the ghost
				// effects of io.Writer.Write from every function of the package)
				return fmt.Errorf("%s: duplicate extern contract for %s in %s", fn, ek, pkgPath)
			}
			cs.Scoped[pkgPath+"|"+ek] = cur
			if prev, ok := cs.Funcs[ek]; ok && prev.SpecPkg != pkgPath {
				cs.Ambig[ek] = true
			} else {
				cs.Funcs[ek] = cur
			}
		case "func", "iface":
			sig, props := splitProps(rest)
			key := canonFuncKey(sig)
			cur = &FuncContract{Key: key, Pkg: pkgPath, Props: props, LoopInv: map[int][]*Clause{}, LoopMod: map[int][]*Clause{}, File: fn, Unroll: map[int]int{}}
			if strings.HasPrefix(sig, "(") {
				if rf := strings.Fields(sig[1:strings.Index(sig, ")")]); len(rf) == 2 {
					cur.recvName = rf[0]
				}
			}
			if kw == "iface" {
				cur.Trusted = true
			}
			k := pkgPath + "::" + key
			if _, dup := cs.Funcs[k]; dup {
				return fmt.Errorf("%s: duplicate contract for %s", fn, key)
			}
			cs.Funcs[k] = cur
		case "trusted":
			if cur == nil {
				return fmt.Errorf("%s: trusted outside func", fn)
			}
			cur.Trusted = true
			cur.TrustNote = rest
		case "inline":
			cur.Inline = true
		case "opaque":
			cur.Opaque = true
		case "nobounds":
			cur.NoBounds = true
		case "noframe":
			cur.NoFrame = true
		case "forkjoin":
			cur.ForkJoin = true
		case "mode":
			cur.Mode = rest
		case "props":
			cur.Props = strings.Fields(rest)
		case "invariant":
			// callback invariant of a closure: assumed at its entry, proved at its exit, proved at
			// every call that hands the closure to a callee which may run it, assumed afterwards
			src, props := splitProps(rest)
			e, err := ParseSpecExpr(src)
			if err != nil {
				return fmt.Errorf("%s: %s: %v", fn, ln, err)
			}
			if cur == nil {
				return fmt.Errorf("%s: clause outside func: %s", fn, ln)
			}
			cur.CbInv = append(cur.CbInv, &Clause{Kind: kw, Src: src, E: e, Props: props, Line: ln})
		case "requires", "ensures":
			src, props := splitProps(rest)
			e, err := ParseSpecExpr(src)
			if err != nil {
				return fmt.Errorf("%s: %s: %v", fn, ln, err)
			}
			c := &Clause{Kind: kw, Src: src, E: e, Props: props, Line: ln, Free: free}
			if cur == nil {
				return fmt.Errorf("%s: clause outside func: %s", fn, ln)
			}
			if kw == "requires" {
				cur.Requires = append(cur.Requires, c)
			} else {
				cur.Ensures = append(cur.Ensures, c)
			}
		case "ghostset":
			parts := strings.SplitN(rest, ":=", 2)
			if len(parts) != 2 || cur == nil {
				return fmt.Errorf("%s: bad ghostset %s", fn, ln)
			}
			l, err := ParseSpecExpr(strings.TrimSpace(parts[0]))
			if err != nil {
				return fmt.Errorf("%s: %s: %v", fn, ln, err)
			}
			r, err := ParseSpecExpr(strings.TrimSpace(parts[1]))
			if err != nil {
				return fmt.Errorf("%s: %s: %v", fn, ln, err)
			}
			cur.GhostSets = append(cur.GhostSets, &GhostSet{LSrc: strings.TrimSpace(parts[0]), RSrc: strings.TrimSpace(parts[1]), L: l, R: r})
			cur.Modifies = append(cur.Modifies, &Clause{Kind: "modifies", Src: strings.TrimSpace(parts[0]), E: l, Line: ln})
		case "modifies":
			for _, part := range splitTop(rest) {
				e, err := ParseSpecExpr(part)
				if err != nil {
					return fmt.Errorf("%s: %s: %v", fn, ln, err)
				}
				cur.Modifies = append(cur.Modifies, &Clause{Kind: kw, Src: part, E: e, Line: ln})
			}
		case "loop":
			fs := strings.Fields(rest)
			if len(fs) < 2 {
				return fmt.Errorf("%s: bad loop clause %s", fn, ln)
			}
			n, err := strconv.Atoi(fs[0])
			if err != nil {
				return fmt.Errorf("%s: bad loop ordinal %s", fn, ln)
			}
			kind := fs[1]
			src := strings.TrimSpace(strings.SplitN(rest, kind, 2)[1])
			switch kind {
			case "invariant":
				src2, props := splitProps(src)
				e, err := ParseSpecExpr(src2)
				if err != nil {
					return fmt.Errorf("%s: %s: %v", fn, ln, err)
				}
				cur.LoopInv[n] = append(cur.LoopInv[n], &Clause{Kind: "invariant", Src: src2, E: e, Loop: n, Line: ln, Props: props, Free: free})
			case "step":
				// loop k step E: E holds whenever an iteration ends (checked on every back edge, in
				// the scope of the iteration that just finished; never assumed)
				src2, props := splitProps(src)
				e, err := ParseSpecExpr(src2)
				if err != nil {
					return fmt.Errorf("%s: %s: %v", fn, ln, err)
				}
				if cur.LoopStep == nil {
					cur.LoopStep = map[int][]*Clause{}
				}
				cur.LoopStep[n] = append(cur.LoopStep[n], &Clause{Kind: "step", Src: src2, E: e, Loop: n, Line: ln, Props: props})
			case "modifies":
				for _, part := range splitTop(src) {
					e, err := ParseSpecExpr(part)
					if err != nil {
						return fmt.Errorf("%s: %s: %v", fn, ln, err)
					}
					cur.LoopMod[n] = append(cur.LoopMod[n], &Clause{Kind: "modifies", Src: part, E: e, Loop: n, Line: ln})
				}
			case "unroll":
				k, err := strconv.Atoi(src)
				if err != nil {
					return fmt.Errorf("%s: bad unroll %s", fn, ln)
				}
				cur.Unroll[n] = k
			default:
				return fmt.Errorf("%s: unknown loop clause %s", fn, ln)
			}
		case "pred", "pure":
			// pred (im *inMemory) valid() := E      pure min2(a int, b int) := E
			pf, err := parsePure(rest)
			if err != nil {
				return fmt.Errorf("%s: %s: %v", fn, ln, err)
			}
			pf.Pkg = pkgPath
			k := pkgPath + "::" + pf.Name
			if pf.RecvTyp != "" {
				k = pkgPath + "::(" + strings.TrimPrefix(pf.RecvTyp, "*") + ")." + pf.Name
			}
			cs.Pures[k] = pf
			cur = nil
		case "ghost":
			// ghost field T.f type   |  ghost var name type
			fs := strings.Fields(rest)
			if len(fs) == 3 && fs[0] == "field" {
				tf := strings.Split(fs[1], ".")
				if len(tf) == 3 {
					// ghost field alias.Type.f : a type of another package
					cs.Ghosts = append(cs.Ghosts, GhostField{Pkg: pkgPath, Type: tf[1], Field: tf[2], Typ: fs[2], ExtPkg: tf[0]})
				} else {
					cs.Ghosts = append(cs.Ghosts, GhostField{Pkg: pkgPath, Type: tf[0], Field: tf[1], Typ: fs[2]})
				}
			} else if len(fs) == 3 && fs[0] == "var" {
				cs.GVars = append(cs.GVars, GhostField{Pkg: pkgPath, Field: fs[1], Typ: fs[2]})
			} else {
				return fmt.Errorf("%s: bad ghost decl %s", fn, ln)
			}
			cur = nil
		default:
			return fmt.Errorf("%s: unrecognised line: %s", fn, ln)
		}
	}
	return nil
}

func splitTop(s string) []string {
	var out []string
	depth := 0
	start := 0
	for i := 0; i < len(s); i++ {
		switch s[i] {
		case '(', '[':
			depth++
		case ')', ']':
			depth--
		case ',':
			if depth == 0 {
				out = append(out, strings.TrimSpace(s[start:i]))
				start = i + 1
			}
		}
	}
	if strings.TrimSpace(s[start:]) != "" {
		out = append(out, strings.TrimSpace(s[start:]))
	}
	return out
}

// "(im *inMemory) merge" -> "(*inMemory).merge"; "(ILogDB) Term" -> "(ILogDB).Term"; "min" -> "min"
// "(l *entryLog) getEntries$1" closures keep the suffix.
func canonFuncKey(sig string) string {
	sig = strings.TrimSpace(sig)
	if strings.HasPrefix(sig, "(") {
		i := strings.Index(sig, ")")
		recv := strings.Fields(sig[1:i])
		name := strings.TrimSpace(sig[i+1:])
		if j := strings.Index(name, "("); j >= 0 {
			name = name[:j]
		}
		t := recv[len(recv)-1]
		return "(" + t + ")." + name
	}
	if j := strings.Index(sig, "("); j >= 0 {
		sig = sig[:j]
	}
	return sig
}

func parsePure(rest string) (*PureFunc, error) {
	parts := strings.SplitN(rest, ":=", 2)
	if len(parts) != 2 {
		return nil, fmt.Errorf("missing := in %s", rest)
	}
	head := strings.TrimSpace(parts[0])
	body, err := ParseSpecExpr(strings.TrimSpace(parts[1]))
	if err != nil {
		return nil, err
	}
	pf := &PureFunc{Body: body, Src: rest}
	if strings.HasPrefix(head, "(") {
		i := strings.Index(head, ")")
		recv := strings.Fields(head[1:i])
		if len(recv) != 2 {
			return nil, fmt.Errorf("bad receiver in %s", head)
		}
		pf.Recv = recv[0]
		pf.RecvTyp = recv[1]
		head = strings.TrimSpace(head[i+1:])
	}
	i := strings.Index(head, "(")
	if i < 0 {
		return nil, fmt.Errorf("missing ( in %s", head)
	}
	pf.Name = strings.TrimSpace(head[:i])
	j := strings.LastIndex(head, ")")
	for _, p := range splitTop(head[i+1 : j]) {
		fs := strings.Fields(p)
		if len(fs) != 2 {
			return nil, fmt.Errorf("bad param %q", p)
		}
		pf.Params = append(pf.Params, fs[0])
		pf.PTyps = append(pf.PTyps, fs[1])
	}
	return pf, nil
}
