package main

import (
	"fmt"
	"go/ast"
	"go/token"
	"go/types"
	"os"
	"path/filepath"
	"sort"
	"strings"

	"golang.org/x/tools/go/packages"
	"golang.org/x/tools/go/ssa"
	"golang.org/x/tools/go/ssa/ssautil"
)

const modPath = "github.com/lni/dragonboat/v4"

type World struct {
	root    string
	pkgs    map[string]*packages.Package
	prog    *ssa.Program
	cs      *Contracts
	fset    *token.FileSet
	typeIDs map[string]int
	typeByKey map[string]types.Type
	scopePkg  string // package of the function being verified (extern contract scoping)
	gaddr   map[*ssa.Global]string
	ufs     map[string]string
	fnIndex map[string]*ssa.Function // pkg::key -> function
	cfg     map[*ssa.Global]*ssa.Function
	cfgBad  map[*ssa.Global]bool
	stored  map[*ssa.Global]bool
	constInit map[*ssa.Global]*ssa.Const
	constBad  map[*ssa.Global]bool
	addrTaken map[*ssa.Global]bool
}

func findContractDirs(root string) map[string]string {
	out := map[string]string{}
	filepath.Walk(root, func(p string, info os.FileInfo, err error) error {
		if err != nil {
			return nil
		}
		if info.IsDir() && (info.Name() == ".git" || info.Name() == "vendor") {
			return filepath.SkipDir
		}
		if !info.IsDir() && info.Name() == "zz_contracts_verif.go" {
			dir := filepath.Dir(p)
			rel, _ := filepath.Rel(root, dir)
			pp := modPath
			if rel != "." {
				pp = modPath + "/" + filepath.ToSlash(rel)
			}
			out[pp] = dir
		}
		return nil
	})
	return out
}

func loadWorld(root string, pkgPaths []string, cs *Contracts) (*World, error) {
	cfg := &packages.Config{Mode: packages.LoadAllSyntax, Dir: root, Env: append(os.Environ(), "GOFLAGS=-mod=mod", "GOPROXY=off", "GOSUMDB=off", "GOTOOLCHAIN=local")}
	pkgs, err := packages.Load(cfg, pkgPaths...)
	if err != nil {
		return nil, err
	}
	nerr := 0
	packages.Visit(pkgs, nil, func(p *packages.Package) {
		for _, e := range p.Errors {
			if nerr < 10 {
				fmt.Fprintf(os.Stderr, "load error: %v\n", e)
			}
			nerr++
		}
	})
	if nerr > 0 {
		return nil, fmt.Errorf("%d package load errors", nerr)
	}
	prog, _ := ssautil.AllPackages(pkgs, ssa.GlobalDebug|ssa.InstantiateGenerics)
	prog.Build()
	w := &World{root: root, pkgs: map[string]*packages.Package{}, prog: prog, cs: cs, typeIDs: map[string]int{}, gaddr: map[*ssa.Global]string{}, ufs: map[string]string{}, fnIndex: map[string]*ssa.Function{}}
	packages.Visit(pkgs, nil, func(p *packages.Package) {
		w.pkgs[p.PkgPath] = p
		if w.fset == nil {
			w.fset = p.Fset
		}
	})
	// index functions of repo packages
	for fn := range ssautil.AllFunctions(prog) {
		pp := funcPkgPath(fn)
		if !w.inRepo(pp) {
			continue
		}
		if fn.Synthetic != "" && fn.Blocks == nil {
			continue
		}
		k := pp + "::" + funcKey(fn)
		if old, dup := w.fnIndex[k]; dup {
			// prefer the non-synthetic one
			if old.Synthetic == "" {
				continue
			}
		}
		w.fnIndex[k] = fn
	}
	return w, nil
}

func (w *World) inRepo(pkgPath string) bool {
	return pkgPath == modPath || strings.HasPrefix(pkgPath, modPath+"/")
}

// constFuncGlobal: the function a package-level func variable is bound to, if it is
// assigned exactly once (in the package initialiser) in the whole program.
func (w *World) constFuncGlobal(g *ssa.Global) *ssa.Function {
	if w.cfg == nil {
		w.cfg = map[*ssa.Global]*ssa.Function{}
		w.cfgBad = map[*ssa.Global]bool{}
		w.stored = map[*ssa.Global]bool{}
		w.constInit = map[*ssa.Global]*ssa.Const{}
		w.constBad = map[*ssa.Global]bool{}
		w.addrTaken = map[*ssa.Global]bool{}
		for fn := range ssautil.AllFunctions(w.prog) {
			for _, b := range fn.Blocks {
				for _, in := range b.Instrs {
					for _, op := range in.Operands(nil) {
						g, ok := (*op).(*ssa.Global)
						if !ok {
							continue
						}
						switch x := in.(type) {
						case *ssa.UnOp, *ssa.FieldAddr, *ssa.IndexAddr, *ssa.DebugRef:
						case *ssa.Store:
							if x.Addr != ssa.Value(g) {
								w.addrTaken[g] = true
							}
						default:
							w.addrTaken[g] = true
						}
					}
				}
			}
		}
		for fn := range ssautil.AllFunctions(w.prog) {
			for _, b := range fn.Blocks {
				for _, in := range b.Instrs {
					st, ok := in.(*ssa.Store)
					if !ok {
						continue
					}
					gg, ok := st.Addr.(*ssa.Global)
					if !ok {
						// a store through a field/element address of a global also counts
						if ra := rootGlobal(st.Addr); ra != nil {
							w.cfgBad[ra] = true
							w.stored[ra] = true
						}
						continue
					}
					w.stored[gg] = true
					if c, isC := st.Val.(*ssa.Const); isC && fn.Name() == "init" {
						if _, dup := w.constInit[gg]; dup {
							w.constBad[gg] = true
						}
						w.constInit[gg] = c
					} else {
						w.constBad[gg] = true
					}
					f, isF := st.Val.(*ssa.Function)
					if !isF || fn.Name() != "init" || w.cfg[gg] != nil {
						w.cfgBad[gg] = true
						continue
					}
					w.cfg[gg] = f
				}
			}
		}
	}
	if w.cfgBad[g] {
		return nil
	}
	return w.cfg[g]
}

func rootGlobal(v ssa.Value) *ssa.Global {
	for {
		switch x := v.(type) {
		case *ssa.Global:
			return x
		case *ssa.FieldAddr:
			v = x.X
		case *ssa.IndexAddr:
			v = x.X
		default:
			return nil
		}
	}
}

// neverStored: a package-level variable that no instruction of the program stores to and
// whose address does not escape keeps its zero value.
func (w *World) neverStored(g *ssa.Global) bool {
	w.constFuncGlobal(g) // make sure the scan ran
	return !w.stored[g] && !w.addrTaken[g]
}

// constGlobal: a package-level variable assigned exactly once, in its package initialiser,
// from a constant, whose address never escapes (T-const, re-scanned every run).
func (w *World) constGlobal(g *ssa.Global) *ssa.Const {
	w.constFuncGlobal(g)
	if w.constBad[g] || w.addrTaken[g] {
		return nil
	}
	return w.constInit[g]
}

var pureExtPrefixes = []string{"github.com/lni/goutils/logutil.", "(*github.com/lni/goutils/random.", "(github.com/lni/goutils/random.", "fmt.", "strconv.", "strings.", "errors.", "time.", "math.", "math/", "bytes.Equal", "bytes.Compare",
	"github.com/cockroachdb/errors.", "hash/crc32.", "path/filepath.", "path.", "sort.Search", "unicode", "os.Getenv", "runtime.",
	"(time.", "(*time.", "math/rand.", "(*math/rand.", "reflect.", "sync/atomic.", "github.com/lni/goutils/random."}

func (w *World) pureExternal(full string) bool {
	for _, p := range pureExtPrefixes {
		if strings.HasPrefix(full, p) {
			return true
		}
	}
	return false
}

func (w *World) posOf(p token.Pos) string {
	if !p.IsValid() || w.fset == nil {
		return "?"
	}
	ps := w.fset.Position(p)
	rel, err := filepath.Rel(w.root, ps.Filename)
	if err != nil {
		rel = ps.Filename
	}
	return fmt.Sprintf("%s:%d", rel, ps.Line)
}

func (w *World) contractFor(fn *ssa.Function) *FuncContract {
	if fn == nil {
		return nil
	}
	if o := fn.Origin(); o != nil {
		fn = o
	}
	return w.lookupContract(funcPkgPath(fn) + "::" + funcKey(fn))
}

func (w *World) contractByKey(pkg, key string) *FuncContract {
	return w.lookupContract(pkg + "::" + key)
}

func (w *World) lookupContract(k string) *FuncContract {
	if c, ok := w.cs.Scoped[w.scopePkg+"|"+k]; ok {
		return c
	}
	if w.cs.Ambig[k] {
		return nil
	}
	return w.cs.Funcs[k]
}

func (c *FuncContract) RecvName() string {
	if c.recvName != "" {
		return c.recvName
	}
	return "self"
}

func (w *World) typesPkg(path string) *types.Package {
	if p, ok := w.pkgs[path]; ok {
		return p.Types
	}
	return nil
}

func (w *World) importAlias(pkgPath, name string) string {
	p := w.pkgs[pkgPath]
	if p == nil {
		return ""
	}
	for _, f := range p.Syntax {
		for _, imp := range f.Imports {
			path := strings.Trim(imp.Path.Value, "\"")
			if imp.Name != nil && imp.Name.Name == name {
				return path
			}
			if imp.Name == nil {
				if ip := w.pkgs[path]; ip != nil && ip.Name == name {
					return path
				}
			}
		}
	}
	return ""
}

func (w *World) globalFor(v *types.Var) *ssa.Global {
	if v.Pkg() == nil {
		return nil
	}
	sp := w.prog.Package(v.Pkg())
	if sp == nil {
		return nil
	}
	g, _ := sp.Members[v.Name()].(*ssa.Global)
	return g
}

func (w *World) globalAddr(g *ssa.Global) string {
	if a, ok := w.gaddr[g]; ok {
		return a
	}
	// deterministic address from a sorted order is not needed within one run
	a := fmt.Sprintf("%d", 1048576+65536*len(w.gaddr))
	w.gaddr[g] = a
	return a
}

func (w *World) resolveType(pkgPath, name string) types.Type {
	star := 0
	for strings.HasPrefix(name, "*") {
		name = name[1:]
		star++
	}
	var t types.Type
	switch name {
	case "int":
		t = types.Typ[types.Int]
	case "uint64":
		t = types.Typ[types.Uint64]
	case "uint32":
		t = types.Typ[types.Uint32]
	case "int64":
		t = types.Typ[types.Int64]
	case "int32":
		t = types.Typ[types.Int32]
	case "uint8", "byte":
		t = types.Typ[types.Uint8]
	case "bool":
		t = types.Typ[types.Bool]
	case "string":
		t = types.Typ[types.String]
	default:
		pp := pkgPath
		n := name
		if i := strings.Index(name, "."); i >= 0 {
			alias := name[:i]
			n = name[i+1:]
			pp = ""
			if tp := w.typesPkg(pkgPath); tp != nil {
				for _, imp := range tp.Imports() {
					if imp.Name() == alias {
						pp = imp.Path()
					}
				}
			}
			if pp == "" {
				pp = w.importAlias(pkgPath, alias)
			}
		}
		tp := w.typesPkg(pp)
		if tp == nil {
			return nil
		}
		o := tp.Scope().Lookup(n)
		if o == nil {
			return nil
		}
		tn, ok := o.(*types.TypeName)
		if !ok {
			return nil
		}
		t = tn.Type()
	}
	for i := 0; i < star; i++ {
		t = types.NewPointer(t)
	}
	return t
}

func (w *World) ghostField(t types.Type, name string) *GhostField {
	n, ok := t.(*types.Named)
	if !ok {
		return nil
	}
	if n.Obj().Pkg() == nil {
		return nil
	}
	for i := range w.cs.Ghosts {
		g := &w.cs.Ghosts[i]
		if g.Type == n.Obj().Name() && g.Field == name && g.Pkg == n.Obj().Pkg().Path() {
			return g
		}
		if g.ExtPkg != "" && g.Type == n.Obj().Name() && g.Field == name && n.Obj().Pkg().Name() == g.ExtPkg {
			return g
		}
	}
	return nil
}

func (w *World) pure(pkg, name string) *PureFunc {
	return w.cs.Pures[pkg+"::"+name]
}

func (w *World) declareUF(s *Script, name string, arity int, ret string) {
	k := name
	decl := fmt.Sprintf("(declare-fun %s (%s) %s)", name, strings.TrimSpace(strings.Repeat("Int ", arity)), ret)
	for _, a := range s.Axioms {
		if a == decl {
			return
		}
	}
	_ = k
	s.Axioms = append(s.Axioms, decl)
}

// sentinel errors: package-level vars of type error
func (w *World) isSentinel(g *ssa.Global) bool {
	t := derefType(g.Type())
	if t == nil {
		return false
	}
	n, ok := t.(*types.Named)
	if !ok || n.Obj().Name() != "error" || n.Obj().Pkg() != nil {
		return false
	}
	if g.Name() == "EOF" && g.Pkg != nil && g.Pkg.Pkg.Path() == "io" {
		return true // io.EOF = errors.New("EOF")
	}
	return strings.HasPrefix(g.Name(), "Err") || strings.HasPrefix(g.Name(), "err")
}

func (w *World) sortedFuncKeys() []string {
	var ks []string
	for k := range w.cs.Funcs {
		ks = append(ks, k)
	}
	sort.Strings(ks)
	return ks
}

var _ = ast.NewIdent

// scalarTypeID: the type with this id is an integer, bool or string type (its interface payload is
// the value itself)
func (w *World) scalarTypeID(id int) bool {
	for k, v := range w.typeIDs {
		if v == id {
			t := w.typeByKey[k]
			if t == nil {
				return false
			}
			b, ok := t.Underlying().(*types.Basic)
			if !ok {
				return false
			}
			return b.Info()&(types.IsInteger|types.IsBoolean|types.IsString) != 0
		}
	}
	return false
}
