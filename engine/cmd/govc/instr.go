package main

import (
	"fmt"
	"go/token"
	"go/types"
	"strings"

	"golang.org/x/tools/go/ssa"
)

func (e *Enc) setVal(fr *Frame, v ssa.Value, x *Val) {
	if x == nil {
		return
	}
	if x.T == nil || x.K != KUnit {
		y := *x
		if x.K == KInt || x.K == KBool || x.K == KSlice || x.K == KIface {
			y.T = v.Type()
		}
		x = &y
	}
	fr.vals[v] = e.nameVal(x, sanitize(v.Name()))
}

func sanitize(s string) string {
	var b strings.Builder
	for i := 0; i < len(s); i++ {
		if isSymChar(s[i]) && s[i] != '!' && s[i] != '@' {
			b.WriteByte(s[i])
		} else {
			b.WriteByte('_')
		}
	}
	return b.String()
}

func (e *Enc) boundsCheck(st *State, cond string, desc string) {
	if e.nobounds {
		e.assume(st, cond)
		return
	}
	e.oblige(st, "bounds", cond, desc, nil)
}

func (e *Enc) instr(fr *Frame, st *State, instr ssa.Instruction) {
	switch x := instr.(type) {
	case *ssa.DebugRef:
		return
	case *ssa.Alloc:
		t := derefType(x.Type())
		addr := e.allocObj(st, sizeOf(t), "new")
		e.storeZero(st, addr, t)
		e.setVal(fr, x, intVal(x.Type(), addr))
	case *ssa.BinOp:
		e.setVal(fr, x, e.binop(st, x.Op, e.val(fr, st, x.X), e.val(fr, st, x.Y), x.X.Type(), x.Type(), x))
	case *ssa.UnOp:
		e.setVal(fr, x, e.unop(fr, st, x))
	case *ssa.Phi:
		// handled in enterBlock
		return
	case *ssa.Call:
		r := e.call(fr, st, x)
		if r != nil && !st.dead() {
			e.setVal(fr, x, r)
		}
	case *ssa.Go:
		if e.forkjoin && len(e.inlineStack) == 0 {
			// fork-join discipline (contract flag `forkjoin`): the function waits for the goroutines it
			// starts before it returns, so the goroutine's body is executed here -- provided it
			// captures no variable that is assigned again while it may still be running
			if mc, ok := x.Call.Value.(*ssa.MakeClosure); ok {
				for _, b := range mc.Bindings {
					if al, ok := b.(*ssa.Alloc); ok {
						if pos, racy := storeReachableAfter(x, al); racy {
							e.oblige(st, "race", "false", fmt.Sprintf("variable %s captured by the goroutine started at %s is assigned again at %s while the goroutine may still be running", al.Comment, e.w.posOf(x.Pos()), e.w.posOf(pos)), e.props)
						}
					}
				}
			}
			e.note("go statement at %s executed in place (fork-join: the function joins its goroutines before returning; interleavings with the rest of the body are not explored)", e.w.posOf(x.Pos()))
			var args []*Val
			for _, a := range x.Call.Args {
				args = append(args, e.val(fr, st, a))
			}
			var fnv *Val
			if _, isB := x.Call.Value.(*ssa.Builtin); !isB {
				fnv = e.val(fr, st, x.Call.Value)
			}
			e.callCommon(fr, st, &x.Call, args, fnv, x)
		} else {
			e.note("go statement ignored (effects of the goroutine are not modelled): %s", e.w.posOf(x.Pos()))
		}
	case *ssa.Defer:
		d := &deferred{instr: x}
		for _, a := range x.Call.Args {
			d.args = append(d.args, e.val(fr, st, a))
		}
		if !x.Call.IsInvoke() {
			if _, isB := x.Call.Value.(*ssa.Builtin); !isB {
				d.fnv = e.val(fr, st, x.Call.Value)
			}
		} else {
			d.fnv = e.val(fr, st, x.Call.Value)
		}
		d.guard = st.reach
		fr.defers = append(fr.defers, d)
	case *ssa.RunDefers:
		ds := fr.defers
		for i := len(ds) - 1; i >= 0; i-- {
			d := ds[i]
			if !d.instr.Block().Dominates(x.Block()) {
				// the defer was registered only on paths through its block
				t := st.clone()
				e.branch(t, d.guard)
				f := st.clone()
				e.branch(f, not(d.guard))
				if !t.dead() {
					e.callCommon(fr, t, &d.instr.Call, d.args, d.fnv, d.instr)
				}
				m := e.mergeStates([]edgeIn{{nil, t}, {nil, f}})
				*st = *m
				if st.dead() {
					return
				}
				continue
			}
			e.callCommon(fr, st, &d.instr.Call, d.args, d.fnv, d.instr)
			if st.dead() {
				return
			}
		}
	case *ssa.FieldAddr:
		base := e.val(fr, st, x.X)
		stt := derefType(x.X.Type()).Underlying().(*types.Struct)
		e.assume(st, fmt.Sprintf("(not (= %s 0))", base.term()))
		v := intVal(x.Type(), addOff(base.term(), fieldOff(stt, x.Field)))
		v.Comp = e.staticComp(x)
		e.setVal(fr, x, v)
		fr.vals[x].Comp = v.Comp
	case *ssa.Field:
		sv := e.val(fr, st, x.X)
		e.setVal(fr, x, sv.F[x.Field])
	case *ssa.IndexAddr:
		base := e.val(fr, st, x.X)
		idx := e.val(fr, st, x.Index).term()
		et := elemType(x.X.Type())
		k := sizeOf(et)
		var addr string
		if base.K == KSlice {
			e.boundsCheck(st, fmt.Sprintf("(and (<= 0 %s) (< %s %s))", idx, idx, base.S[1]), "index in range: "+e.w.posOf(x.Pos()))
			addr = elemAddr(base.S[0], k, idx)
			e.setVal(fr, x, intVal(x.Type(), addr))
		} else {
			at := derefType(x.X.Type()).Underlying().(*types.Array)
			e.assume(st, fmt.Sprintf("(not (= %s 0))", base.term()))
			e.boundsCheck(st, fmt.Sprintf("(and (<= 0 %s) (< %s %d))", idx, idx, at.Len()), "array index in range: "+e.w.posOf(x.Pos()))
			addr = elemAddr(base.term(), k, idx)
			v := intVal(x.Type(), addr)
			v.Comp = base.Comp
			if kindOf(et) == KStruct {
				if _, isArr := et.Underlying().(*types.Array); !isArr {
					v.Comp = ""
				}
			}
			e.setVal(fr, x, v)
			fr.vals[x].Comp = v.Comp
		}
	case *ssa.Index:
		base := e.val(fr, st, x.X)
		idx := e.val(fr, st, x.Index).term()
		if base.K == KStruct { // array value
			n := len(base.F)
			e.boundsCheck(st, fmt.Sprintf("(and (<= 0 %s) (< %s %d))", idx, idx, n), "array index in range")
			if n == 0 {
				e.setVal(fr, x, e.zero(x.Type()))
				return
			}
			v := base.F[n-1]
			for i := n - 2; i >= 0; i-- {
				v = e.iteVal(fmt.Sprintf("(= %s %d)", idx, i), base.F[i], v)
			}
			e.setVal(fr, x, v)
		} else {
			// string index
			e.boundsCheck(st, fmt.Sprintf("(and (<= 0 %s) (< %s (strlen %s)))", idx, idx, base.term()), "string index in range")
			r := intVal(x.Type(), fmt.Sprintf("(strbyte %s %s)", base.term(), idx))
			e.assume(st, rangeOf(x.Type(), r.term()))
			e.setVal(fr, x, r)
		}
	case *ssa.Slice:
		e.sliceInstr(fr, st, x)
	case *ssa.MakeSlice:
		ln := e.val(fr, st, x.Len).term()
		cp := e.val(fr, st, x.Cap).term()
		et := elemType(x.Type())
		k := sizeOf(et)
		e.assume(st, fmt.Sprintf("(and (<= 0 %s) (<= %s %s) (<= %s %s))", ln, ln, cp, cp, pow2(40)))
		ptr := e.allocObjN(st, mulK(k, cp), "mk")
		if ln != "0" {
			e.rangeZero(st, et, ptr, mulK(k, ln))
		}
		e.setVal(fr, x, &Val{T: x.Type(), K: KSlice, S: []string{ptr, ln, cp}})
	case *ssa.MakeMap:
		mt := x.Type().Underlying().(*types.Map)
		ref := e.allocObj(st, 1, "map")
		e.mapInitEmpty(st, mt, ref)
		e.setVal(fr, x, intVal(x.Type(), ref))
	case *ssa.MapUpdate:
		e.mapUpdate(fr, st, x)
	case *ssa.Lookup:
		e.lookup(fr, st, x)
	case *ssa.Range:
		e.rangeInstr(fr, st, x)
	case *ssa.Next:
		e.nextInstr(fr, st, x)
	case *ssa.Extract:
		tv := e.val(fr, st, x.Tuple)
		e.setVal(fr, x, tv.F[x.Index])
	case *ssa.Convert:
		e.setVal(fr, x, e.convert(st, e.val(fr, st, x.X), x.X.Type(), x.Type()))
	case *ssa.ChangeType:
		v := *e.val(fr, st, x.X)
		v.T = x.Type()
		e.setVal(fr, x, &v)
	case *ssa.MakeInterface:
		e.setVal(fr, x, e.makeIface(st, e.val(fr, st, x.X), x.X.Type(), x.Type()))
	case *ssa.ChangeInterface:
		v := *e.val(fr, st, x.X)
		v.T = x.Type()
		e.setVal(fr, x, &v)
	case *ssa.TypeAssert:
		e.typeAssert(fr, st, x)
	case *ssa.MakeClosure:
		fn := x.Fn.(*ssa.Function)
		v := &Val{T: x.Type(), K: KInt, S: []string{e.funcID(fn)}, Fn: fn}
		for _, b := range x.Bindings {
			v.Bind = append(v.Bind, e.val(fr, st, b))
		}
		fr.vals[x] = v
	case *ssa.Store:
		addr := e.val(fr, st, x.Addr)
		v := e.val(fr, st, x.Val)
		e.assume(st, fmt.Sprintf("(not (= %s 0))", addr.term()))
		t := derefType(x.Addr.Type())
		e.storeAt(st, addr.term(), t, addr.Comp, v)
		e.noteClosureStore(fr, st, x, v)
	case *ssa.MakeChan:
		ref := e.allocObj(st, 1, "chan")
		sz := e.val(fr, st, x.Size).term()
		capA := e.comp(st, "CH:cap", "(Array Int Int)")
		e.setComp(st, "CH:cap", "(Array Int Int)", sto(capA, ref, sz))
		lenA := e.comp(st, "CH:len", "(Array Int Int)")
		e.setComp(st, "CH:len", "(Array Int Int)", sto(lenA, ref, "0"))
		e.setVal(fr, x, intVal(x.Type(), ref))
	case *ssa.Send:
		e.unsupported("channel send at %s", e.w.posOf(x.Pos()))
	case *ssa.Select:
		e.selectInstr(fr, st, x)
	case *ssa.SliceToArrayPointer, *ssa.MultiConvert:
		e.unsupported("%T", x)
	default:
		e.unsupported("instruction %T", instr)
	}
}

func (e *Enc) allocObj(st *State, size int64, name string) string {
	return e.allocObjN(st, fmt.Sprintf("%d", size), name)
}

func (e *Enc) allocObjN(st *State, size string, name string) string {
	addr := e.s.FreshDef(name, "Int", st.alloc)
	st.alloc = e.s.FreshDef("alloc", "Int", fmt.Sprintf("(+ %s %s 1)", st.alloc, size))
	return addr
}

func (e *Enc) storeZero(st *State, addr string, t types.Type) {
	switch u := t.Underlying().(type) {
	case *types.Array:
		if u.Len() > maxArrayVal {
			e.rangeZero(st, u.Elem(), addr, fmt.Sprintf("%d", u.Len()*sizeOf(u.Elem())))
			return
		}
	case *types.Struct:
		sk := structKey(t)
		for i := 0; i < u.NumFields(); i++ {
			ft := u.Field(i).Type()
			fa := addOff(addr, fieldOff(u, i))
			if at, ok := ft.Underlying().(*types.Array); ok && at.Len() > maxArrayVal {
				// large array field: zero its range in the field component(s)
				var lvs []leaf
				e.memLeaves(ft, "F:"+sk+"."+u.Field(i).Name(), &lvs)
				n := fmt.Sprintf("%d", at.Len()*sizeOf(at.Elem()))
				for _, lf := range lvs {
					old := e.comp(st, lf.suffix, lf.sort)
					nw := e.s.Fresh(sym("h."+lf.suffix), lf.sort)
					e.s.AddFact(nw, fmt.Sprintf("(forall ((a!c Int)) (! (= (select %s a!c) (ite (and (<= %s a!c) (< a!c (+ %s %s))) %s (select %s a!c))) :pattern ((select %s a!c))))",
						nw, fa, fa, n, zeroOfSort(lf.sort), old, nw))
					st.heap[lf.suffix] = nw
				}
				continue
			}
			if kindOf(ft) == KStruct {
				e.storeZero(st, fa, ft)
			} else {
				e.storeAt(st, fa, ft, "F:"+sk+"."+u.Field(i).Name(), e.zero(ft))
			}
		}
		return
	}
	e.storeAt(st, addr, t, "", e.zero(t))
}

func (e *Enc) binop(st *State, op token.Token, a, b *Val, xt types.Type, rt types.Type, instr *ssa.BinOp) *Val {
	switch op {
	case token.EQL:
		return boolVal(e.eqCmp(a, b))
	case token.NEQ:
		return boolVal(not(e.eqCmp(a, b)))
	}
	if a.K == KBool {
		e.unsupported("bool binop %v", op)
	}
	x, y := a.term(), b.term()
	if isString(xt) {
		switch op {
		case token.ADD:
			return intVal(rt, fmt.Sprintf("(strcat %s %s)", x, y))
		case token.LSS:
			return boolVal(fmt.Sprintf("(strlt %s %s)", x, y))
		case token.GTR:
			return boolVal(fmt.Sprintf("(strlt %s %s)", y, x))
		case token.LEQ:
			return boolVal(fmt.Sprintf("(not (strlt %s %s))", y, x))
		case token.GEQ:
			return boolVal(fmt.Sprintf("(not (strlt %s %s))", x, y))
		}
	}
	if isFloat(xt) {
		switch op {
		case token.LSS, token.GTR, token.LEQ, token.GEQ:
			return boolVal(e.s.Fresh("fcmp", "Bool"))
		}
		r := e.s.Fresh("fop", "Int")
		if op == token.QUO {
			// the quotient of two floats that hold converted integers is remembered (see fltRec)
			fx, okx := e.flt[x]
			fy, oky := e.flt[y]
			if okx && oky && fx.kind == "int" && fy.kind == "int" {
				e.flt[r] = fltRec{kind: "quo", a: fx.a, b: fy.a}
			}
		}
		return intVal(rt, r)
	}
	switch op {
	case token.LSS:
		return boolVal(app("<", x, y))
	case token.LEQ:
		return boolVal(app("<=", x, y))
	case token.GTR:
		return boolVal(app(">", x, y))
	case token.GEQ:
		return boolVal(app(">=", x, y))
	case token.ADD:
		return intVal(rt, wrap1(rt, app("+", x, y)))
	case token.SUB:
		return intVal(rt, wrap1(rt, app("-", x, y)))
	case token.MUL:
		return intVal(rt, wrapMod(rt, app("*", x, y)))
	case token.QUO, token.REM:
		e.boundsCheck(st, fmt.Sprintf("(not (= %s 0))", y), "division by zero")
		_, signed, _ := intInfo(rt)
		if !signed {
			if op == token.QUO {
				return intVal(rt, app("div", x, y))
			}
			return intVal(rt, app("mod", x, y))
		}
		// truncated division
		q := fmt.Sprintf("(ite (>= %s 0) (div %s %s) (- (div (- %s) %s)))", x, x, y, x, y)
		if op == token.QUO {
			return intVal(rt, wrap1(rt, q))
		}
		return intVal(rt, fmt.Sprintf("(- %s (* %s %s))", x, y, q))
	case token.SHL:
		if isLiteral(y) {
			return intVal(rt, wrapMod(rt, fmt.Sprintf("(* %s %s)", x, pow2(atoi(y)))))
		}
		r := intVal(rt, fmt.Sprintf("(bitshl %s %s)", x, y))
		e.assume(st, e.wf(r, st.alloc)) // the (uninterpreted) result is a value of its Go type
		return r
	case token.SHR:
		if isLiteral(y) {
			return intVal(rt, fmt.Sprintf("(div %s %s)", x, pow2(atoi(y))))
		}
		r := intVal(rt, fmt.Sprintf("(bitshr %s %s)", x, y))
		e.assume(st, e.wf(r, st.alloc))
		return r
	case token.AND, token.OR, token.XOR, token.AND_NOT:
		if r, ok := bitwiseSmall(rt, op, x, y); ok {
			return intVal(rt, r)
		}
	}
	switch op {
	case token.AND:
		// x & (2^k - 1)
		for _, p := range [][2]string{{x, y}, {y, x}} {
			if isLiteral(p[1]) {
				if k, ok := maskBits(p[1]); ok && isUnsigned(rt) {
					return intVal(rt, fmt.Sprintf("(mod %s %s)", p[0], pow2(k)))
				}
			}
		}
		v := intVal(rt, fmt.Sprintf("(bitand %s %s)", x, y))
		e.assume(st, fmt.Sprintf("(and (<= 0 %s) (<= %s %s))", v.term(), v.term(), x))
		return v
	case token.OR, token.XOR, token.AND_NOT:
		name := map[token.Token]string{token.OR: "bitor", token.XOR: "bitxor", token.AND_NOT: "bitandnot"}[op]
		v := intVal(rt, fmt.Sprintf("(%s %s %s)", name, x, y))
		// wide operands stay uninterpreted, but the result is still a value of its Go type
		e.assume(st, e.wf(v, st.alloc))
		return v
	}
	e.unsupported("binop %v", op)
	return nil
}

func atoi(s string) int {
	n := 0
	for i := 0; i < len(s); i++ {
		n = n*10 + int(s[i]-'0')
	}
	return n
}

func maskBits(lit string) (int, bool) {
	if len(lit) > 19 {
		if lit == "18446744073709551615" {
			return 64, true
		}
		return 0, false
	}
	var n uint64
	for i := 0; i < len(lit); i++ {
		n = n*10 + uint64(lit[i]-'0')
	}
	if n == 0 {
		return 0, false
	}
	if n&(n+1) != 0 {
		return 0, false
	}
	k := 0
	for n > 0 {
		k++
		n >>= 1
	}
	return k, true
}

func (e *Enc) eqCmp(a, b *Val) string {
	if a.K == KSlice || b.K == KSlice {
		// comparison with nil
		return eq(a.S[0], b.S[0])
	}
	if a.K != b.K {
		// iface vs concrete should not occur in SSA (MakeInterface inserted)
		e.unsupported("comparison of kinds %d and %d", a.K, b.K)
	}
	return e.eqVal(a, b)
}

func (e *Enc) unop(fr *Frame, st *State, x *ssa.UnOp) *Val {
	a := e.val(fr, st, x.X)
	switch x.Op {
	case token.NOT:
		return boolVal(not(a.term()))
	case token.SUB:
		if isFloat(x.Type()) {
			return intVal(x.Type(), e.s.Fresh("fneg", "Int"))
		}
		return intVal(x.Type(), wrap1(x.Type(), app("-", "0", a.term())))
	case token.XOR:
		bits, signed, ok := intInfo(x.Type())
		if !ok {
			e.unsupported("^ on %v", x.Type())
		}
		if signed {
			return intVal(x.Type(), fmt.Sprintf("(- (- %s) 1)", a.term()))
		}
		return intVal(x.Type(), fmt.Sprintf("(- %s %s)", subOne(pow2(bits)), a.term()))
	case token.MUL:
		t := x.Type()
		if g, ok := x.X.(*ssa.Global); ok && e.w.isSentinel(g) {
			return e.sentinelVal(st, g)
		}
		if g, ok := x.X.(*ssa.Global); ok && e.w.neverStored(g) {
			return e.zero(t)
		}
		if g, ok := x.X.(*ssa.Global); ok {
			if c := e.w.constGlobal(g); c != nil {
				return e.constVal(c)
			}
		}
		e.assume(st, fmt.Sprintf("(not (= %s 0))", a.term()))
		v := e.loadAt(st, a.term(), t, a.Comp)
		v = e.nameVal(v, sanitize(x.Name()))
		e.assume(st, e.wf(v, st.alloc))
		return v
	case token.ARROW:
		e.unsupported("channel receive at %s", e.w.posOf(x.Pos()))
	}
	e.unsupported("unop %v", x.Op)
	return nil
}

func subOne(dec string) string {
	return fmt.Sprintf("(- %s 1)", dec)
}

func (e *Enc) convert(st *State, v *Val, from, to types.Type) *Val {
	fb, fs, fok := intInfo(from)
	tb, ts, tok := intInfo(to)
	if fok && tok {
		if (fs == ts && tb >= fb) || (!fs && ts && tb > fb) {
			return intVal(to, v.term())
		}
		return intVal(to, wrapMod(to, v.term()))
	}
	if isPointer(from) || isPointer(to) || (kindOf(from) == KInt && kindOf(to) == KInt && !isString(from) && !isString(to) && !isFloat(from) && !isFloat(to)) {
		// unsafe.Pointer / uintptr conversions
		return intVal(to, v.term())
	}
	// string <-> []byte, int -> string, float conversions: uninterpreted result
	r := e.fresh(to, "conv")
	e.assume(st, e.wf(r, st.alloc))
	if fok && isFloat(to) && !isFloat(from) && !isString(from) {
		// float64(n): the float is an opaque value, but it is remembered which integer it was converted from
		e.flt[r.term()] = fltRec{kind: "int", a: v.term()}
	}
	if tok && isFloat(from) && !isFloat(to) && tb >= 64 {
		if f, ok := e.flt[v.term()]; ok && f.kind == "ceilquo" {
			// uint64(math.Ceil(float64(a) / float64(b))) with 0 <= a, 0 < b and a + b < 2^53: both conversions are
			// exact, the rounded quotient cannot reach the next integer (the gap 1/b to it exceeds half the spacing
			// of doubles near a/b because a + 1 < 2^53), so the result is the integer ceiling of a / b
			e.assume(st, fmt.Sprintf("(=> (and (>= %s 0) (> %s 0) (< (+ %s %s) %s)) (= %s (div (+ %s %s (- 1)) %s)))",
				f.a, f.b, f.a, f.b, pow2(53), r.term(), f.a, f.b, f.b))
			e.note("uint64(math.Ceil(float64(a)/float64(b))) modelled as the integer ceiling of a/b for a + b < 2^53 (IEEE-754 double semantics assumed)")
		}
	}
	if isString(from) && kindOf(to) == KSlice {
		e.assume(st, fmt.Sprintf("(= %s (strlen %s))", r.S[1], v.term()))
		// fresh memory
		e.assume(st, fmt.Sprintf("(>= %s %s)", r.S[0], st.alloc))
		na := e.s.Fresh("alloc", "Int")
		e.assume(st, fmt.Sprintf("(<= (+ %s %s 1) %s)", r.S[0], r.S[2], na))
		st.alloc = na
	}
	if isString(to) && kindOf(from) == KSlice {
		e.assume(st, fmt.Sprintf("(= (strlen %s) %s)", r.term(), v.S[1]))
	}
	e.note("conversion %v -> %v treated as uninterpreted", from, to)
	return r
}

func (e *Enc) makeIface(st *State, v *Val, from, to types.Type) *Val {
	tag := e.typeID(from)
	var payload string
	switch v.K {
	case KInt:
		payload = v.term()
	case KBool:
		payload = ite(v.term(), "1", "0")
	default:
		addr := e.allocObj(st, sizeOf(from), "box")
		e.storeAt(st, addr, from, "", v)
		payload = addr
	}
	return &Val{T: to, K: KIface, S: []string{tag, payload}}
}

func (e *Enc) unbox(st *State, iv *Val, t types.Type) *Val {
	switch kindOf(t) {
	case KInt:
		return intVal(t, iv.S[1])
	case KBool:
		return boolVal(fmt.Sprintf("(not (= %s 0))", iv.S[1]))
	}
	v := e.loadAt(st, iv.S[1], t, "")
	return v
}

func (e *Enc) typeAssert(fr *Frame, st *State, x *ssa.TypeAssert) {
	iv := e.val(fr, st, x.X)
	at := x.AssertedType
	var ok string
	var res *Val
	if _, isIface := at.Underlying().(*types.Interface); isIface {
		okS := e.s.Fresh("taok", "Bool")
		e.assume(st, fmt.Sprintf("(=> (= %s 0) (not %s))", iv.S[0], okS))
		// deterministic per dynamic type
		ok = okS
		e.assume(st, fmt.Sprintf("(= %s (implements %s %s))", okS, iv.S[0], e.typeID(at)))
		r := *iv
		r.T = at
		res = &r
	} else {
		ok = fmt.Sprintf("(= %s %s)", iv.S[0], e.typeID(at))
		res = e.unbox(st, iv, at)
	}
	if x.CommaOk {
		z := e.zero(at)
		val := e.iteVal(ok, res, z)
		e.setVal(fr, x, &Val{T: x.Type(), K: KTuple, F: []*Val{val, boolVal(ok)}})
		return
	}
	e.assume(st, ok) // failing assertion panics (fail-stop)
	e.setVal(fr, x, res)
}

func (e *Enc) sliceInstr(fr *Frame, st *State, x *ssa.Slice) {
	base := e.val(fr, st, x.X)
	var lo, hi, mx string
	if x.Low != nil {
		lo = e.val(fr, st, x.Low).term()
	} else {
		lo = "0"
	}
	pos := e.w.posOf(x.Pos())
	switch {
	case base.K == KSlice:
		if x.High != nil {
			hi = e.val(fr, st, x.High).term()
		} else {
			hi = base.S[1]
		}
		capT := base.S[2]
		if x.Max != nil {
			mx = e.val(fr, st, x.Max).term()
			e.boundsCheck(st, fmt.Sprintf("(and (<= 0 %s) (<= %s %s) (<= %s %s) (<= %s %s))", lo, lo, hi, hi, mx, mx, capT), "slice bounds: "+pos)
		} else {
			mx = capT
			e.boundsCheck(st, fmt.Sprintf("(and (<= 0 %s) (<= %s %s) (<= %s %s))", lo, lo, hi, hi, capT), "slice bounds: "+pos)
		}
		k := sizeOf(elemType(x.X.Type()))
		e.setVal(fr, x, &Val{T: x.Type(), K: KSlice, S: []string{
			elemAddr(base.S[0], k, lo), app("-", hi, lo), app("-", mx, lo)}})
	case isString(x.X.Type()):
		if x.High != nil {
			hi = e.val(fr, st, x.High).term()
		} else {
			hi = fmt.Sprintf("(strlen %s)", base.term())
		}
		e.boundsCheck(st, fmt.Sprintf("(and (<= 0 %s) (<= %s %s) (<= %s (strlen %s)))", lo, lo, hi, hi, base.term()), "string slice bounds: "+pos)
		r := intVal(x.Type(), fmt.Sprintf("(substr %s %s %s)", base.term(), lo, hi))
		e.assume(st, fmt.Sprintf("(= (strlen %s) (- %s %s))", r.term(), hi, lo))
		e.setVal(fr, x, r)
	default: // pointer to array
		at := derefType(x.X.Type()).Underlying().(*types.Array)
		n := fmt.Sprintf("%d", at.Len())
		if x.High != nil {
			hi = e.val(fr, st, x.High).term()
		} else {
			hi = n
		}
		if base.Comp != "" {
			e.unsupported("slicing an array field (%s)", base.Comp)
		}
		e.boundsCheck(st, fmt.Sprintf("(and (<= 0 %s) (<= %s %s) (<= %s %s))", lo, lo, hi, hi, n), "slice bounds: "+pos)
		k := sizeOf(at.Elem())
		e.setVal(fr, x, &Val{T: x.Type(), K: KSlice, S: []string{
			elemAddr(base.term(), k, lo), app("-", hi, lo), app("-", n, lo)}})
	}
}

func (e *Enc) noteClosureStore(fr *Frame, st *State, x *ssa.Store, v *Val) {}

func (e *Enc) selectInstr(fr *Frame, st *State, x *ssa.Select) {
	// only the non-blocking single-send idiom: select { case ch <- v: default: }
	if !x.Blocking && len(x.States) == 1 && x.States[0].Dir == types.SendOnly {
		ch := e.val(fr, st, x.States[0].Chan).term()
		lenA := e.comp(st, "CH:len", "(Array Int Int)")
		capA := e.comp(st, "CH:cap", "(Array Int Int)")
		full := fmt.Sprintf("(>= (select %s %s) (select %s %s))", lenA, ch, capA, ch)
		idx := ite(full, "(- 1)", "0")
		e.setComp(st, "CH:len", "(Array Int Int)", ite(full, lenA, sto(lenA, ch, fmt.Sprintf("(+ (select %s %s) 1)", lenA, ch))))
		res := &Val{T: x.Type(), K: KTuple, F: []*Val{intVal(types.Typ[types.Int], idx), boolVal("false")}}
		e.setVal(fr, x, res)
		return
	}
	// non-blocking single receive: select { case <-ch: default: } (stop channels): either
	// branch may be taken
	if !x.Blocking && len(x.States) == 1 && x.States[0].Dir == types.RecvOnly {
		ch := e.val(fr, st, x.States[0].Chan).term()
		idx := e.s.Fresh("selidx", "Int")
		e.assume(st, fmt.Sprintf("(or (= %s 0) (= %s (- 1)))", idx, idx))
		lenA := e.comp(st, "CH:len", "(Array Int Int)")
		nl := e.s.Fresh("chlen", "Int")
		e.assume(st, fmt.Sprintf("(and (<= 0 %s) (<= %s (select %s %s)))", nl, nl, lenA, ch))
		e.setComp(st, "CH:len", "(Array Int Int)", sto(lenA, ch, nl))
		res := &Val{T: x.Type(), K: KTuple, F: []*Val{intVal(types.Typ[types.Int], idx), boolVal(e.s.Fresh("recvok", "Bool"))}}
		if tu, ok := x.Type().(*types.Tuple); ok {
			for i := 2; i < tu.Len(); i++ {
				v := e.fresh(tu.At(i).Type(), "recv")
				e.assume(st, e.wf(v, st.alloc))
				res.F = append(res.F, v)
			}
		}
		e.setVal(fr, x, res)
		return
	}
	e.unsupported("select at %s", e.w.posOf(x.Pos()))
}

// bitwiseSmall gives the exact value of a bitwise operation on 8-bit unsigned operands by bit
// decomposition (bit k of x is (x div 2^k) mod 2), and folds x|0, x^0, x&^0.
func bitwiseSmall(rt types.Type, op token.Token, x, y string) (string, bool) {
	if op != token.AND {
		if y == "0" {
			return x, true
		}
		if x == "0" && op != token.AND_NOT {
			return y, true
		}
	}
	bits, signed, ok := intInfo(rt)
	if !ok || signed || bits != 8 {
		return "", false
	}
	bit := func(v string, k int) string {
		if k == 0 {
			return fmt.Sprintf("(= (mod %s 2) 1)", v)
		}
		return fmt.Sprintf("(= (mod (div %s %s) 2) 1)", v, pow2(k))
	}
	var terms []string
	for k := 0; k < 8; k++ {
		var c string
		switch op {
		case token.AND:
			c = fmt.Sprintf("(and %s %s)", bit(x, k), bit(y, k))
		case token.OR:
			c = fmt.Sprintf("(or %s %s)", bit(x, k), bit(y, k))
		case token.XOR:
			c = fmt.Sprintf("(xor %s %s)", bit(x, k), bit(y, k))
		default:
			c = fmt.Sprintf("(and %s (not %s))", bit(x, k), bit(y, k))
		}
		terms = append(terms, fmt.Sprintf("(ite %s %s 0)", c, pow2(k)))
	}
	return "(+ " + strings.Join(terms, " ") + ")", true
}

// storeReachableAfter: is there a store to the cell `al` on some path from the go statement to the
// function's exit that does not re-execute the allocation of the cell (which would make it a new
// cell)? Returns the position of such a store.
func storeReachableAfter(g *ssa.Go, al *ssa.Alloc) (token.Pos, bool) {
	// scan returns (found position, stop): stop when the alloc itself is re-executed
	scan := func(instrs []ssa.Instruction) (token.Pos, bool, bool) {
		for _, in := range instrs {
			if in == ssa.Instruction(al) {
				return token.NoPos, false, true
			}
			if s, ok := in.(*ssa.Store); ok && s.Addr == ssa.Value(al) {
				return s.Pos(), true, false
			}
		}
		return token.NoPos, false, false
	}
	blk := g.Block()
	idx := -1
	for i, in := range blk.Instrs {
		if in == ssa.Instruction(g) {
			idx = i
		}
	}
	if idx < 0 {
		return token.NoPos, false
	}
	if p, found, stop := scan(blk.Instrs[idx+1:]); found {
		return p, true
	} else if stop {
		return token.NoPos, false
	}
	seen := map[*ssa.BasicBlock]bool{}
	work := append([]*ssa.BasicBlock(nil), blk.Succs...)
	for len(work) > 0 {
		b := work[0]
		work = work[1:]
		if seen[b] {
			continue
		}
		seen[b] = true
		p, found, stop := scan(b.Instrs)
		if found {
			return p, true
		}
		if stop {
			continue
		}
		work = append(work, b.Succs...)
	}
	return token.NoPos, false
}
