package main

import (
	"fmt"
	"sort"
	"strings"
)

// lintGhostFrames: a postcondition that constrains the NEW value of a ghost variable is assumed at every call site; if the
// contract does not list that variable under `modifies` (ghostset targets are listed implicitly) the call site keeps the OLD
// value, and a clause such as `g == old(g) + 1` then contradicts it -- everything after the call is proved vacuously. This
// happened (a seeded change that had been detected stopped being detected after a helper was moved from `trusted` to verified
// with `noframe` and an incomplete modifies list). Reported as a contract error for every ghost VARIABLE whose new value an
// `ensures` relates to its old(...) value without the contract modifying it, unless the clause is literally `g == old(g)`.
func lintGhostFrames(cs *Contracts) []string {
	gv := map[string]bool{}
	for _, g := range cs.GVars {
		gv[g.Field] = true
	}
	var out []string
	var keys []string
	for k := range cs.Funcs {
		keys = append(keys, k)
	}
	sort.Strings(keys)
	for _, k := range keys {
		c := cs.Funcs[k]
		mod := map[string]bool{}
		for _, m := range c.Modifies {
			collectGhostIdents(m.E, gv, false, mod)
		}
		bad := map[string]bool{}
		// two-state use: the contract relates the new value of g to old(g) somewhere (a clause that only READS a ghost
		// variable -- `result == gFinalDirExists` -- describes unchanged environment state and is fine)
		oldUse := map[string]bool{}
		for _, cl := range c.Ensures {
			collectOldGhostIdents(cl.E, gv, false, oldUse)
		}
		for _, cl := range c.Ensures {
			if cl.Free {
				continue
			}
			used := map[string]bool{}
			collectGhostIdents(cl.E, gv, true, used)
			for g := range used {
				if oldUse[g] && !mod[g] && !isUnchangedClause(cl.E, g) {
					bad[g] = true
				}
			}
		}
		if len(bad) > 0 {
			var bs []string
			for g := range bad {
				bs = append(bs, g)
			}
			sort.Strings(bs)
			out = append(out, fmt.Sprintf("%s: ensures constrains ghost variable(s) %s that the contract does not list under modifies", k, strings.Join(bs, ", ")))
		}
	}
	return out
}

// collectGhostIdents: ghost variable names (plain or pkg-qualified) occurring in e; with skipOld, occurrences under old(...) are ignored
func collectGhostIdents(e *SExpr, gv map[string]bool, skipOld bool, out map[string]bool) {
	if e == nil {
		return
	}
	if skipOld && e.Op == "old" {
		return
	}
	if e.Op == "ident" && gv[e.Name] {
		out[e.Name] = true
	}
	if e.Op == "sel" && gv[e.Name] && len(e.Args) == 1 && e.Args[0].Op == "ident" && !gv[e.Args[0].Name] {
		out[e.Name] = true
	}
	for _, a := range e.Args {
		collectGhostIdents(a, gv, skipOld, out)
	}
}

// isUnchangedClause: the clause is a conjunction in which g only occurs as `g == old(g)` (or mirrored)
func isUnchangedClause(e *SExpr, g string) bool {
	if e == nil {
		return true
	}
	if e.Op == "bin" && e.Name == "==" && len(e.Args) == 2 {
		a, b := e.Args[0], e.Args[1]
		isG := func(x *SExpr) bool {
			return (x.Op == "ident" && x.Name == g) || (x.Op == "sel" && x.Name == g)
		}
		isOldG := func(x *SExpr) bool { return x.Op == "old" && len(x.Args) == 1 && isG(x.Args[0]) }
		if (isG(a) && isOldG(b)) || (isG(b) && isOldG(a)) {
			return true
		}
	}
	if e.Op == "bin" && e.Name == "&&" {
		for _, a := range e.Args {
			used := map[string]bool{}
			collectGhostIdents(a, map[string]bool{g: true}, true, used)
			if used[g] && !isUnchangedClause(a, g) {
				return false
			}
		}
		return true
	}
	used := map[string]bool{}
	collectGhostIdents(e, map[string]bool{g: true}, true, used)
	return !used[g]
}

// collectOldGhostIdents: ghost variables occurring under old(...)
func collectOldGhostIdents(e *SExpr, gv map[string]bool, under bool, out map[string]bool) {
	if e == nil {
		return
	}
	if e.Op == "old" {
		under = true
	}
	if under {
		if e.Op == "ident" && gv[e.Name] {
			out[e.Name] = true
		}
		if e.Op == "sel" && gv[e.Name] && len(e.Args) == 1 && e.Args[0].Op == "ident" && !gv[e.Args[0].Name] {
			out[e.Name] = true
		}
	}
	for _, a := range e.Args {
		collectOldGhostIdents(a, gv, under, out)
	}
}
