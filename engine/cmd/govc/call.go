package main

import (
	"math/big"
	"strconv"
	"go/token"
	"fmt"
	"go/types"
	"sort"
	"strings"

	"golang.org/x/tools/go/ssa"
)

const maxInlineDepth = 8

func (e *Enc) call(fr *Frame, st *State, x *ssa.Call) *Val {
	var args []*Val
	for _, a := range x.Call.Args {
		args = append(args, e.val(fr, st, a))
	}
	var fnv *Val
	if _, isB := x.Call.Value.(*ssa.Builtin); !isB {
		fnv = e.val(fr, st, x.Call.Value)
	}
	return e.callCommon(fr, st, &x.Call, args, fnv, x)
}

func funcKey(f *ssa.Function) string {
	if f.Parent() != nil {
		p := f.Parent()
		return funcKey(p) + strings.TrimPrefix(f.Name(), p.Name())
	}
	if recv := f.Signature.Recv(); recv != nil {
		t := recv.Type()
		star := ""
		if p, ok := t.(*types.Pointer); ok {
			t = p.Elem()
			star = "*"
		}
		name := ""
		if n, ok := t.(*types.Named); ok {
			name = n.Obj().Name()
		} else {
			name = t.String()
		}
		return "(" + star + name + ")." + f.Name()
	}
	return f.Name()
}

func funcPkgPath(f *ssa.Function) string {
	for f.Parent() != nil {
		f = f.Parent()
	}
	if f.Pkg != nil {
		return f.Pkg.Pkg.Path()
	}
	if recv := f.Signature.Recv(); recv != nil {
		t := recv.Type()
		if p, ok := t.(*types.Pointer); ok {
			t = p.Elem()
		}
		if n, ok := t.(*types.Named); ok && n.Obj().Pkg() != nil {
			return n.Obj().Pkg().Path()
		}
	}
	if f.Object() != nil && f.Object().Pkg() != nil {
		return f.Object().Pkg().Path()
	}
	return ""
}

func (e *Enc) callOrdName(callee string) string {
	e.callOrd[callee]++
	return fmt.Sprintf("%s#%d", callee, e.callOrd[callee])
}

func (e *Enc) callCommon(fr *Frame, st *State, cc *ssa.CallCommon, args []*Val, fnv *Val, site ssa.Instruction) *Val {
	resT := cc.Signature().Results()
	var rt types.Type = resT
	if resT.Len() == 1 {
		rt = resT.At(0).Type()
	}
	// builtins
	if b, ok := cc.Value.(*ssa.Builtin); ok {
		return e.builtin(fr, st, b, cc, args, rt, site)
	}
	if cc.IsInvoke() {
		return e.invoke(fr, st, cc, fnv, args, rt, site)
	}
	var callee *ssa.Function
	var bind []*Val
	if f := cc.StaticCallee(); f != nil {
		callee = f
		if mc, ok := cc.Value.(*ssa.MakeClosure); ok {
			_ = mc
			bind = fnv.Bind
		}
	} else if fnv != nil && fnv.Fn != nil {
		callee = fnv.Fn.(*ssa.Function)
		bind = fnv.Bind
	}
	if callee == nil {
		return e.dynamicCall(fr, st, cc, fnv, args, rt, site)
	}
	full := callee.String()
	if r, handled := e.special(fr, st, full, callee, args, rt, site); handled {
		return r
	}
	if isLogArgHelper(callee) {
		e.note("T-log: %s is only used to build log arguments; treated as pure and total", full)
		return e.fresh(rt, "logarg")
	}
	c := e.w.contractFor(callee)
	if c != nil && !c.Inline {
		var names []string
		for _, p := range callee.Params {
			names = append(names, p.Name())
		}
		return e.modularCall(fr, st, c, names, args, rt, site, funcKey(callee), callee.Signature)
	}
	if callee.Blocks != nil && e.w.inRepo(funcPkgPath(callee)) {
		return e.inlineCall(fr, st, callee, args, bind, rt)
	}
	// external function without contract
	if e.w.pureExternal(full) {
		r := e.fresh(rt, "ext")
		e.assume(st, e.wf(r, st.alloc))
		e.note("external call treated as pure with arbitrary result: %s", full)
		return r
	}
	e.note("uncontracted-call (havoc-all): %s", full)
	e.havocAll(st)
	r := e.fresh(rt, "ext")
	e.assume(st, e.wf(r, st.alloc))
	return r
}

// log-argument helpers: string-valued describe()/id() style methods
func isLogArgHelper(f *ssa.Function) bool {
	if f.Signature.Recv() == nil || f.Signature.Results().Len() != 1 || !isString(f.Signature.Results().At(0).Type()) {
		return false
	}
	switch f.Name() {
	case "describe", "id", "ssid", "String":
		return f.Signature.Params().Len() <= 1
	}
	return false
}

func (e *Enc) inlineCall(fr *Frame, st *State, callee *ssa.Function, args []*Val, bind []*Val, rt types.Type) *Val {
	if fr.depth >= maxInlineDepth {
		e.unsupported("inline depth exceeded at %s", callee)
	}
	for _, f := range e.inlineStack {
		if f == callee {
			e.unsupported("recursive call to %s needs a contract", callee)
		}
	}
	e.inlineStack = append(e.inlineStack, callee)
	defer func() { e.inlineStack = e.inlineStack[:len(e.inlineStack)-1] }()
	nf := &Frame{fn: callee, vals: map[ssa.Value]*Val{}, depth: fr.depth + 1, parent: fr, callName: callee.Name()}
	for i, p := range callee.Params {
		nf.vals[p] = args[i]
	}
	for i, fv := range callee.FreeVars {
		if i < len(bind) {
			nf.vals[fv] = bind[i]
		}
	}
	e.flush(st)
	nf.entry = st.clone()
	final, res := e.runBody(nf, st.clone())
	*st = *final
	return res
}

func (e *Enc) invoke(fr *Frame, st *State, cc *ssa.CallCommon, recv *Val, args []*Val, rt types.Type, site ssa.Instruction) *Val {
	it := types.Unalias(cc.Value.Type())
	name := cc.Method.Name()
	if n, ok := it.(*types.Named); ok {
		tn := n.Obj().Name()
		pk := ""
		if n.Obj().Pkg() != nil {
			pk = n.Obj().Pkg().Path()
		}
		if tn == "IRaftEventListener" || tn == "ISystemEventListener" {
			// event listeners: no effect on modelled state (DESIGN 2.4 item 4)
			r := e.fresh(rt, "ev")
			return r
		}
		if tn == "ILogger" {
			if name == "Panicf" {
				st.reach = "false"
				return e.zero(rt)
			}
			return e.zero(rt)
		}
		if tn == "error" && name == "Error" {
			return intVal(rt, fmt.Sprintf("(errstr %s %s)", recv.S[0], recv.S[1]))
		}
		if c := e.w.contractByKey(pk, "("+tn+")."+name); c != nil {
			names := []string{c.RecvName()}
			sig := cc.Signature()
			for i := 0; i < sig.Params().Len(); i++ {
				n := sig.Params().At(i).Name()
				if n == "" || n == "_" {
					n = fmt.Sprintf("arg%d", i)
				}
				names = append(names, n)
			}
			all := append([]*Val{recv}, args...)
			e.assume(st, not(eq(recv.S[0], "0"))) // nil interface call panics
			reach := st.reach
			res := e.modularCall(fr, st, c, names, all, rt, site, "("+tn+")."+name, sig)
			if fr.top || true {
				e.callLog = append(e.callLog, callRec{iface: cc.Value.Type(), method: name, reach: reach, res: res, sig: sig})
			}
			return res
		}
		e.note("uncontracted-call (havoc-all): interface method %s.%s.%s", pk, tn, name)
	} else {
		if name == "Error" {
			return intVal(rt, fmt.Sprintf("(errstr %s %s)", recv.S[0], recv.S[1]))
		}
		e.note("uncontracted-call (havoc-all): interface method %s.%s", it, name)
	}
	e.havocAll(st)
	r := e.fresh(rt, "inv")
	e.assume(st, e.wf(r, st.alloc))
	return r
}

func (e *Enc) dynamicCall(fr *Frame, st *State, cc *ssa.CallCommon, fnv *Val, args []*Val, rt types.Type, site ssa.Instruction) *Val {
	// a call through a package-level func variable that is only assigned in init
	if u, ok := cc.Value.(*ssa.UnOp); ok {
		if g, ok := u.X.(*ssa.Global); ok {
			if f := e.w.constFuncGlobal(g); f != nil {
				full := f.String()
				if r, handled := e.special(fr, st, full, f, args, rt, site); handled {
					return r
				}
				if c := e.w.contractFor(f); c != nil && !c.Inline {
					var names []string
					for _, p := range f.Params {
						names = append(names, p.Name())
					}
					return e.modularCall(fr, st, c, names, args, rt, site, funcKey(f), f.Signature)
				}
				if f.Blocks != nil && e.w.inRepo(funcPkgPath(f)) {
					return e.inlineCall(fr, st, f, args, nil, rt)
				}
				if e.w.pureExternal(full) {
					r := e.fresh(rt, "ext")
					e.assume(st, e.wf(r, st.alloc))
					e.note("external call treated as pure with arbitrary result: %s", full)
					return r
				}
			}
		}
	}
	// a call through a func-typed struct field: contract keyed "fieldfunc.T.f"
	if u, ok := cc.Value.(*ssa.UnOp); ok {
		if fa, ok := u.X.(*ssa.FieldAddr); ok {
			if n, ok := derefNamed(fa.X.Type()); ok && n.Obj().Pkg() != nil {
				stt := n.Underlying().(*types.Struct)
				key := "fieldfunc." + n.Obj().Name() + "." + stt.Field(fa.Field).Name()
				if c := e.w.contractByKey(n.Obj().Pkg().Path(), key); c != nil {
					sig := cc.Signature()
					var names []string
					for i := 0; i < sig.Params().Len(); i++ {
						names = append(names, sig.Params().At(i).Name())
					}
					return e.modularCall(fr, st, c, names, args, rt, site, key, sig)
				}
			}
		}
	}
	// function-typed value: use a functype contract when the static type is named
	if n, ok := cc.Value.Type().(*types.Named); ok && n.Obj().Pkg() != nil {
		if c := e.w.contractByKey(n.Obj().Pkg().Path(), "functype."+n.Obj().Name()); c != nil {
			sig := cc.Signature()
			var names []string
			for i := 0; i < sig.Params().Len(); i++ {
				names = append(names, sig.Params().At(i).Name())
			}
			return e.modularCall(fr, st, c, names, args, rt, site, "functype."+n.Obj().Name(), sig)
		}
	}
	e.note("uncontracted-call (havoc-all): dynamic call of %s at %s", cc.Value.Name(), e.w.posOf(site.Pos()))
	e.havocAll(st)
	r := e.fresh(rt, "dyn")
	e.assume(st, e.wf(r, st.alloc))
	return r
}

// ---------- modular call ----------

// calleeFreshComps: components in which a callee with a body may initialise freshly
// allocated objects (nil = unknown, assume any).
func (e *Enc) calleeFreshComps(callee *ssa.Function) map[string]bool {
	if callee == nil || callee.Blocks == nil {
		return nil
	}
	if m, ok := e.freshMemo[callee]; ok {
		return m
	}
	if e.freshMemo == nil {
		e.freshMemo = map[*ssa.Function]map[string]bool{}
	}
	ws := WS{}
	allocs, all := false, false
	for _, b := range callee.Blocks {
		for _, in := range b.Instrs {
			e.writeSet(nil, nil, nil, in, ws, &allocs, &all, 1)
		}
	}
	if all {
		e.freshMemo[callee] = nil
		return nil
	}
	m := map[string]bool{}
	for k := range ws {
		m[k] = true
	}
	e.freshMemo[callee] = m
	return m
}

func (e *Enc) modularCall(fr *Frame, st *State, c *FuncContract, names []string, args []*Val, rt types.Type, site ssa.Instruction, calleeName string, sig *types.Signature) *Val {
	cname := e.callOrdName(calleeName)
	vars := map[string]*Val{}
	for i := range args {
		// positional names (unnamed parameters of func-typed fields / interface methods)
		vars[fmt.Sprintf("arg%d", i)] = args[i]
	}
	for i, n := range names {
		if i < len(args) && n != "" && n != "_" {
			vars[n] = args[i]
		}
	}
	e.flush(st)
	old := st.clone()
	cpkg := c.Pkg
	if c.SpecPkg != "" {
		cpkg = c.SpecPkg
	}
	env := &SpecEnv{e: e, cur: st, old: old, vars: vars, pkg: cpkg, fr: nil}
	for _, cl := range c.Requires {
		if cl.Free {
			e.specAssume(st, cl.E, env)
			continue
		}
		e.specOblige(st, "pre@call:"+cname, cl.E, env, "precondition of "+calleeName+": "+cl.Src, cl.Props)
	}
	e.flush(st)
	// closures handed to a callee that may run them (modifies captured(f)): their callback
	// invariants must hold now and are assumed after the call
	var cbs []*SpecEnv
	var cbcs []*FuncContract
	if contractMentionsCaptured(c) {
		for _, a := range args {
			if a == nil || a.Fn == nil {
				continue
			}
			cf := a.Fn.(*ssa.Function)
			cc := e.w.contractFor(cf)
			if cc == nil || len(cc.CbInv) == 0 {
				e.note("closure %s is handed to %s without a callback invariant: the captured variables are arbitrary afterwards", cf.Name(), calleeName)
				continue
			}
			cfr := &Frame{fn: cf, vals: map[ssa.Value]*Val{}}
			for i, fv := range cf.FreeVars {
				if i < len(a.Bind) {
					cfr.vals[fv] = a.Bind[i]
				}
			}
			cenv := &SpecEnv{e: e, cur: st, old: st, vars: map[string]*Val{}, pkg: funcPkgPath(cf), fr: cfr}
			if site != nil && site.Block() != nil {
				cenv.outer = e.specEnv(fr, st, site.Block())
			}
			for _, cl := range cc.CbInv {
				e.specOblige(st, "cbinv-entry:"+cname, cl.E, cenv, "callback invariant of "+cf.Name()+" holds when it is handed to "+calleeName+": "+cl.Src, cl.Props)
			}
			cbs = append(cbs, cenv)
			cbcs = append(cbcs, cc)
		}
		e.flush(st)
	}
	old = st.clone()
	env.old = old
	// frame
	e.applyModifies(st, old, c, env)
	for i, cenv := range cbs {
		cenv.cur = st
		cenv.old = st
		if cenv.outer != nil {
			cenv.outer = cenv.outer.with(st)
		}
		for _, cl := range cbcs[i].CbInv {
			e.specAssume(st, cl.E, cenv)
		}
	}
	na := e.s.Fresh("alloc", "Int")
	e.assume(st, fmt.Sprintf("(<= %s %s)", st.alloc, na))
	st.alloc = na
	res := e.fresh(rt, "res."+sanitize(calleeName))
	e.assume(st, e.wf(res, st.alloc))
	e.resultsAvoidUnescaped(fr, st, site, res)
	e.bindResults(vars, res, sig)
	env2 := &SpecEnv{e: e, cur: st, old: old, vars: vars, pkg: cpkg}
	// components the postcondition reads in the new state get a fresh version above the old
	// allocation frontier (the callee may have initialised objects it allocated); below the
	// frontier they are unchanged unless listed in modifies. Using a distinct array symbol
	// keeps "new contents = old contents shifted" facts free of matching loops.
	var freshComps map[string]bool
	if cs, ok := site.(ssa.CallInstruction); ok && site != nil {
		if f := cs.Common().StaticCallee(); f != nil {
			freshComps = e.calleeFreshComps(f)
		}
	}
	if len(c.Ensures) > 0 {
		e.rec = map[string]bool{}
		e.recState = st
		for _, cl := range c.Ensures {
			e.evalBool(cl.E, env2)
		}
		e.recState = nil
		var names []string
		for n := range e.rec {
			names = append(names, n)
		}
		e.rec = nil
		sort.Strings(names)
		for _, n := range names {
			srt := e.compSort[n]
			if !strings.HasPrefix(srt, "(Array Int ") || strings.HasPrefix(n, "GV:") || strings.HasPrefix(n, "L:") || e.ghostComps[n] {
				continue
			}
			if freshComps != nil && !freshComps[n] {
				continue // the callee cannot initialise fresh objects in this component
			}
			cur := e.comp(st, n, srt)
			if cur != e.comp(old, n, srt) {
				continue // already given a new version by modifies
			}
			nw := e.s.Fresh("h."+n, srt)
			e.s.AddFact(nw, fmt.Sprintf("(forall ((a!c Int)) (! (=> (< a!c %s) (= (select %s a!c) (select %s a!c))) :pattern ((select %s a!c))))",
				old.alloc, nw, cur, nw))
			st.heap[n] = nw
		}
	}
	for _, gs := range c.GhostSets {
		e.specAssume(st, &SExpr{Op: "bin", Name: "==", Args: []*SExpr{gs.L, gs.R}}, env2)
	}
	for _, cl := range c.Ensures {
		e.specAssume(st, cl.E, env2)
	}
	e.flush(st)
	return res
}

func (e *Enc) bindResults(vars map[string]*Val, res *Val, sig *types.Signature) {
	if _, clash := vars["result"]; !clash {
		vars["result"] = res
	}
	if res.K == KTuple {
		for i, f := range res.F {
			vars[fmt.Sprintf("result%d", i)] = f
		}
	} else {
		vars["result0"] = res
	}
	if sig != nil {
		rs := sig.Results()
		for i := 0; i < rs.Len(); i++ {
			n := rs.At(i).Name()
			if n == "" || n == "_" {
				continue
			}
			if _, clash := vars[n]; clash {
				continue
			}
			if res.K == KTuple {
				vars[n] = res.F[i]
			} else {
				vars[n] = res
			}
		}
	}
}

type modTarget struct {
	comp string
	sort string
	kind string // point | range | all
	addr string
	n    string
}

func (e *Enc) modTargets(c *FuncContract, env *SpecEnv) []modTarget {
	var out []modTarget
	for _, cl := range c.Modifies {
		out = append(out, e.evalModTarget(cl.E, env)...)
	}
	return out
}

func (e *Enc) applyModifies(st *State, old *State, c *FuncContract, env *SpecEnv) {
	save := env.cur
	env.cur = old
	ts := e.modTargets(c, env)
	env.cur = save
	for _, t := range ts {
		cur := e.comp(st, t.comp, t.sort)
		elemSort := strings.TrimSuffix(strings.TrimPrefix(t.sort, "(Array Int "), ")")
		switch t.kind {
		case "point":
			h := e.s.Fresh("hv", elemSort)
			e.setComp(st, t.comp, t.sort, sto(cur, t.addr, h))
		case "range":
			nw := e.s.Fresh(sym("h."+t.comp), t.sort)
			e.s.AddFact(nw, fmt.Sprintf("(forall ((a!c Int)) (! (=> (not (and (<= %s a!c) (< a!c (+ %s %s)))) (= (select %s a!c) (select %s a!c))) :pattern ((select %s a!c))))",
				t.addr, t.addr, t.n, nw, cur, nw))
			st.heap[t.comp] = nw
			e.compSort[t.comp] = t.sort
		case "all":
			st.heap[t.comp] = e.s.Fresh(sym("h."+t.comp), t.sort)
			e.compSort[t.comp] = t.sort
		case "fresh":
			// only freshly allocated objects are written: nothing visible changes
		}
	}
}

// frameObligations: every component whose final version differs from the entry version
// may differ only at addresses named by modifies (or freshly allocated).
func (e *Enc) frameObligations(fr *Frame, final *State, c *FuncContract, env *SpecEnv) {
	if final.dead() {
		return
	}
	save := env.cur
	env.cur = fr.entry
	ts := e.modTargets(c, env)
	env.cur = save
	by := map[string][]modTarget{}
	for _, t := range ts {
		by[t.comp] = append(by[t.comp], t)
	}
	var ks []string
	for k := range final.heap {
		ks = append(ks, k)
	}
	sort.Strings(ks)
	alloc0 := fr.entry.alloc
	for _, k := range ks {
		if strings.HasPrefix(k, "IT:") {
			continue
		}
		entryT := e.s.Declare(sym(k+"@0"), e.compSort[k])
		if t, ok := fr.entry.heap[k]; ok {
			entryT = t
		}
		if final.heap[k] == entryT {
			continue
		}
		a := e.s.Fresh("fa", "Int")
		var allowed []string
		whole := false
		for _, t := range by[k] {
			switch t.kind {
			case "point":
				allowed = append(allowed, eq(a, t.addr))
			case "range":
				allowed = append(allowed, fmt.Sprintf("(and (<= %s %s) (< %s (+ %s %s)))", t.addr, a, a, t.addr, t.n))
			case "all":
				whole = true
			}
		}
		if whole {
			continue
		}
		goal := implies(and(fmt.Sprintf("(<= 0 %s)", a), fmt.Sprintf("(< %s %s)", a, alloc0), not(or(allowed...))),
			eq(sel(final.heap[k], a), sel(entryT, a)))
		e.obligeNamed(final, "frame:"+k, goal, "component "+k+" unchanged outside modifies")
	}
}

func (e *Enc) obligeNamed(st *State, kind, goal, desc string) {
	st2 := st.clone()
	e.oblige(st2, kind, goal, desc, nil)
}

// ---------- builtins ----------

func (e *Enc) builtin(fr *Frame, st *State, b *ssa.Builtin, cc *ssa.CallCommon, args []*Val, rt types.Type, site ssa.Instruction) *Val {
	switch b.Name() {
	case "len":
		a := args[0]
		at := cc.Args[0].Type()
		switch {
		case a.K == KSlice:
			return intVal(rt, a.S[1])
		case isString(at):
			r := intVal(rt, fmt.Sprintf("(strlen %s)", a.term()))
			e.assume(st, fmt.Sprintf("(<= 0 %s)", r.term()))
			return r
		}
		switch u := at.Underlying().(type) {
		case *types.Map:
			ln := e.mapLen(st, u, a.term())
			e.assume(st, fmt.Sprintf("(and (<= 0 %s) (<= %s 1099511627776) (=> (= %s 0) (= %s 0)))", ln, ln, a.term(), ln))
			return intVal(rt, ln)
		case *types.Chan:
			lenA := e.comp(st, "CH:len", "(Array Int Int)")
			capA := e.comp(st, "CH:cap", "(Array Int Int)")
			e.assume(st, fmt.Sprintf("(and (<= 0 %s) (<= %s %s))", sel(lenA, a.term()), sel(lenA, a.term()), sel(capA, a.term())))
			return intVal(rt, sel(lenA, a.term()))
		case *types.Array:
			return intVal(rt, fmt.Sprintf("%d", u.Len()))
		case *types.Pointer:
			if at2, ok := u.Elem().Underlying().(*types.Array); ok {
				return intVal(rt, fmt.Sprintf("%d", at2.Len()))
			}
		}
	case "cap":
		a := args[0]
		if a.K == KSlice {
			return intVal(rt, a.S[2])
		}
		switch u := cc.Args[0].Type().Underlying().(type) {
		case *types.Chan:
			capA := e.comp(st, "CH:cap", "(Array Int Int)")
			return intVal(rt, sel(capA, a.term()))
		case *types.Array:
			return intVal(rt, fmt.Sprintf("%d", u.Len()))
		}
	case "append":
		return e.appendBuiltin(st, cc, args, rt)
	case "copy":
		dst, src := args[0], args[1]
		if src.K != KSlice {
			// copy(dst, string)
			n := e.s.FreshDef("copyn", "Int", fmt.Sprintf("(ite (< %s (strlen %s)) %s (strlen %s))", dst.S[1], src.term(), dst.S[1], src.term()))
			e.havocRange(st, elemType(cc.Args[0].Type()), dst.S[0], n)
			return intVal(rt, n)
		}
		et := elemType(cc.Args[0].Type())
		k := sizeOf(et)
		n := e.s.FreshDef("copyn", "Int", fmt.Sprintf("(ite (< %s %s) %s %s)", dst.S[1], src.S[1], dst.S[1], src.S[1]))
		e.rangeCopy(st, et, dst.S[0], src.S[0], mulK(k, n), "true")
		return intVal(rt, n)
	case "delete":
		mt := cc.Args[0].Type().Underlying().(*types.Map)
		e.mapDelete(st, mt, args[0].term(), args[1])
		return unitVal()
	case "min", "max":
		op := "<="
		if b.Name() == "max" {
			op = ">="
		}
		r := args[0].term()
		for _, a := range args[1:] {
			r = fmt.Sprintf("(ite (%s %s %s) %s %s)", op, r, a.term(), r, a.term())
		}
		return intVal(rt, r)
	case "print", "println":
		return unitVal()
	case "close":
		return unitVal()
	case "ssa:wrapnilchk":
		e.assume(st, not(eq(args[0].term(), "0")))
		return args[0]
	}
	e.unsupported("builtin %s", b.Name())
	return nil
}

func (e *Enc) havocRange(st *State, t types.Type, dst, n string) {
	var lvs []leaf
	e.memLeaves(t, "", &lvs)
	for _, lf := range lvs {
		old := e.comp(st, lf.suffix, lf.sort)
		nw := e.s.Fresh(sym("h."+lf.suffix), lf.sort)
		e.s.AddFact(nw, fmt.Sprintf("(forall ((a!c Int)) (! (=> (not (and (<= %s a!c) (< a!c (+ %s %s)))) (= (select %s a!c) (select %s a!c))) :pattern ((select %s a!c))))",
			dst, dst, n, nw, old, nw))
		st.heap[lf.suffix] = nw
	}
}

func (e *Enc) appendBuiltin(st *State, cc *ssa.CallCommon, args []*Val, rt types.Type) *Val {
	s := args[0]
	et := elemType(cc.Args[0].Type())
	k := sizeOf(et)
	var addLen, srcPtr string
	t := args[1]
	if t.K == KSlice {
		addLen, srcPtr = t.S[1], t.S[0]
	} else if isString(cc.Args[1].Type()) {
		// append([]byte, string...)
		addLen = fmt.Sprintf("(strlen %s)", t.term())
		srcPtr = ""
	} else {
		e.unsupported("append argument kind")
	}
	if addLen == "0" {
		return s
	}
	newLen := e.s.FreshDef("app.len", "Int", fmt.Sprintf("(+ %s %s)", s.S[1], addLen))
	fits := e.s.FreshDef("app.fits", "Bool", fmt.Sprintf("(<= %s %s)", newLen, s.S[2]))
	// fresh backing store when it does not fit
	freshPtr := e.s.FreshDef("app.new", "Int", st.alloc)
	newCap := e.s.Fresh("app.cap", "Int")
	e.assume(st, fmt.Sprintf("(and (>= %s %s) (<= %s %s))", newCap, newLen, newCap, pow2(62)))
	e.assume(st, fmt.Sprintf("(<= %s %s)", newLen, pow2(61)))
	st.alloc = e.s.FreshDef("alloc", "Int", ite(fits, st.alloc, fmt.Sprintf("(+ %s %s 1)", st.alloc, mulK(k, newCap))))
	ptr := e.s.FreshDef("app.ptr", "Int", ite(fits, s.S[0], freshPtr))
	cp := e.s.FreshDef("app.capr", "Int", ite(fits, s.S[2], newCap))
	// copy old contents when reallocating
	e.rangeCopy(st, et, freshPtr, s.S[0], mulK(k, s.S[1]), not(fits))
	// copy appended elements
	dst := elemAddr(ptr, k, s.S[1])
	if srcPtr != "" {
		e.rangeCopy(st, et, dst, srcPtr, mulK(k, addLen), "true")
	} else {
		e.havocRange(st, et, dst, mulK(k, addLen))
	}
	return &Val{T: rt, K: KSlice, S: []string{ptr, newLen, cp}}
}

// ---------- special-cased library functions ----------

func (e *Enc) special(fr *Frame, st *State, full string, callee *ssa.Function, args []*Val, rt types.Type, site ssa.Instruction) (*Val, bool) {
	switch full {
	case "math.Ceil":
		r := e.s.Fresh("fceil", "Int")
		if f, ok := e.flt[args[0].term()]; ok && f.kind == "quo" {
			e.flt[r] = fltRec{kind: "ceilquo", a: f.a, b: f.b}
		}
		return intVal(rt, r), true
	case "errors.Is", "github.com/cockroachdb/errors.Is":
		a, b := args[0], args[1]
		r := e.s.FreshDef("errIs", "Bool", fmt.Sprintf("(and (not (= %s 0)) (or (and (= %s %s) (= %s %s)) (and (not (= %s 0)) (= (errroot %s %s) %s))))",
			a.S[0], a.S[0], b.S[0], a.S[1], b.S[1], b.S[0], a.S[0], a.S[1], b.S[1]))
		return boolVal(r), true
	case "errors.New", "github.com/cockroachdb/errors.New", "fmt.Errorf", "github.com/cockroachdb/errors.Newf", "github.com/cockroachdb/errors.Errorf":
		r := e.fresh(rt, "err")
		e.assume(st, e.wf(r, st.alloc))
		e.assume(st, not(eq(r.S[0], "0")))
		e.assume(st, fmt.Sprintf("(>= %s %s)", r.S[1], st.alloc)) // distinct from any sentinel
		na := e.s.Fresh("alloc", "Int")
		e.assume(st, fmt.Sprintf("(< %s %s)", r.S[1], na))
		e.assume(st, fmt.Sprintf("(<= %s %s)", st.alloc, na))
		e.assume(st, fmt.Sprintf("(= (errroot %s %s) 0)", r.S[0], r.S[1]))
		st.alloc = na
		return r, true
	case "github.com/cockroachdb/errors.WithStack", "github.com/cockroachdb/errors.Wrapf", "github.com/cockroachdb/errors.Wrap", "github.com/cockroachdb/errors.WithMessage":
		a := args[0]
		r := e.fresh(rt, "werr")
		e.assume(st, e.wf(r, st.alloc))
		e.assume(st, fmt.Sprintf("(= (= %s 0) (= %s 0))", r.S[0], a.S[0]))
		// errors.Is sees through wrapping
		e.assume(st, fmt.Sprintf("(=> (not (= %s 0)) (and (>= %s %s) (= (errroot %s %s) (ite (= (errroot %s %s) 0) %s (errroot %s %s)))))", a.S[0], r.S[1], st.alloc, r.S[0], r.S[1], a.S[0], a.S[1], a.S[1], a.S[0], a.S[1]))
		return r, true
	case "(*sync.Mutex).Lock", "(*sync.RWMutex).Lock":
		return e.lockOp(st, args[0].term(), "2", true), true
	case "(*sync.RWMutex).RLock":
		return e.lockOp(st, args[0].term(), "1", true), true
	case "(*sync.Mutex).Unlock", "(*sync.RWMutex).Unlock", "(*sync.RWMutex).RUnlock":
		return e.lockOp(st, args[0].term(), "0", false), true
	case "sync/atomic.LoadUint64", "sync/atomic.LoadUint32", "sync/atomic.LoadInt32", "sync/atomic.LoadInt64":
		t := derefType(callee.Signature.Params().At(0).Type())
		v := e.loadAt(st, args[0].term(), t, args[0].Comp)
		e.assume(st, e.wf(v, st.alloc))
		return v, true
	case "sync/atomic.StoreUint64", "sync/atomic.StoreUint32", "sync/atomic.StoreInt32", "sync/atomic.StoreInt64":
		t := derefType(callee.Signature.Params().At(0).Type())
		e.storeAt(st, args[0].term(), t, args[0].Comp, args[1])
		return unitVal(), true
	case "sync/atomic.AddUint64", "sync/atomic.AddUint32", "sync/atomic.AddInt32", "sync/atomic.AddInt64":
		t := derefType(callee.Signature.Params().At(0).Type())
		v := e.loadAt(st, args[0].term(), t, args[0].Comp)
		nv := intVal(t, wrap1(t, app("+", v.term(), args[1].term())))
		nv = e.nameVal(nv, "atomicadd")
		e.storeAt(st, args[0].term(), t, args[0].Comp, nv)
		return nv, true
	case "sync/atomic.CompareAndSwapUint32", "sync/atomic.CompareAndSwapUint64", "sync/atomic.CompareAndSwapInt32":
		t := derefType(callee.Signature.Params().At(0).Type())
		v := e.loadAt(st, args[0].term(), t, args[0].Comp)
		ok := e.s.FreshDef("cas", "Bool", eq(v.term(), args[1].term()))
		e.storeAt(st, args[0].term(), t, args[0].Comp, intVal(t, ite(ok, args[2].term(), v.term())))
		return boolVal(ok), true
	case "(encoding/binary.bigEndian).PutUint64", "(encoding/binary.littleEndian).PutUint64",
		"(encoding/binary.bigEndian).PutUint32", "(encoding/binary.littleEndian).PutUint32",
		"(encoding/binary.bigEndian).PutUint16", "(encoding/binary.littleEndian).PutUint16":
		n := "8"
		if strings.HasSuffix(full, "32") {
			n = "4"
		} else if strings.HasSuffix(full, "16") {
			n = "2"
		}
		b := args[len(args)-2]
		e.boundsCheck(st, fmt.Sprintf("(>= %s %s)", b.S[1], n), "binary.PutUintN: buffer too short at "+e.w.posOf(site.Pos()))
		// exact: byte k of the n-byte big/little-endian representation of v
		{
			nn, _ := strconv.Atoi(n)
			v := args[len(args)-1].term()
			bt := elemType(b.T)
			big := strings.Contains(full, "bigEndian")
			e.note("encoding/binary fixed-width accessors are modelled exactly (base-256 digits, big/little endian); library semantics assumed")
			// the bytes are fresh digits d_w in [0,255] with v == sum d_w * 256^w (the base-256
			// representation exists and is unique for 0 <= v < 256^n, which the argument's type
			// guarantees): linear for the solvers, unlike div/mod chains
			var sum []string
			digits := make([]string, nn)
			for w := 0; w < nn; w++ {
				d := e.s.Fresh("digit", "Int")
				digits[w] = d
				e.assume(st, fmt.Sprintf("(and (<= 0 %s) (<= %s 255))", d, d))
				if w == 0 {
					sum = append(sum, d)
				} else {
					sum = append(sum, fmt.Sprintf("(* %s %s)", pow256(w), d))
				}
			}
			e.assume(st, fmt.Sprintf("(= %s (+ %s))", v, strings.Join(sum, " ")))
			for k := 0; k < nn; k++ {
				w := k
				if big {
					w = nn - 1 - k
				}
				e.storeAt(st, elemAddr(b.S[0], 1, fmt.Sprintf("%d", k)), bt, "", intVal(bt, digits[w]))
			}
		}
		return unitVal(), true
	case "(encoding/binary.bigEndian).Uint64", "(encoding/binary.littleEndian).Uint64",
		"(encoding/binary.bigEndian).Uint32", "(encoding/binary.littleEndian).Uint32",
		"(encoding/binary.bigEndian).Uint16", "(encoding/binary.littleEndian).Uint16":
		n := "8"
		if strings.HasSuffix(full, "32") {
			n = "4"
		} else if strings.HasSuffix(full, "16") {
			n = "2"
		}
		b := args[len(args)-1]
		e.boundsCheck(st, fmt.Sprintf("(>= %s %s)", b.S[1], n), "binary.UintN: buffer too short at "+e.w.posOf(site.Pos()))
		// exact: the value of the n bytes read big/little-endian
		{
			e.note("encoding/binary fixed-width accessors are modelled exactly (base-256 digits, big/little endian); library semantics assumed")
			nn, _ := strconv.Atoi(n)
			bt := elemType(b.T)
			big := strings.Contains(full, "bigEndian")
			var terms []string
			for k := 0; k < nn; k++ {
				w := k
				if big {
					w = nn - 1 - k
				}
				bv := e.loadAt(st, elemAddr(b.S[0], 1, fmt.Sprintf("%d", k)), bt, "")
				if w == 0 {
					terms = append(terms, bv.term())
				} else {
					terms = append(terms, fmt.Sprintf("(* %s %s)", pow256(w), bv.term()))
				}
			}
			r := e.nameVal(intVal(rt, "(+ "+strings.Join(terms, " ")+")"), "rdint")
			return r, true
		}
	case "sort.Search":
		// returns an index in [0, n] (the smallest for which the predicate holds, if monotone)
		r := e.fresh(rt, "search")
		e.assume(st, fmt.Sprintf("(and (<= 0 %s) (<= %s %s))", r.term(), r.term(), args[0].term()))
		return r, true
	case "fmt.Sprintf", "fmt.Sprint":
		// Sprintf of a constant format with up to four arguments of integer, bool or string type is
		// a function of the format and the argument values (an uninterpreted one): two calls with
		// equal inputs yield equal strings. Anything else stays an unknown string.
		if full == "fmt.Sprintf" && len(args) == 2 {
			if ci, ok := site.(ssa.CallInstruction); ok && len(ci.Common().Args) == 2 {
				if ops, ok := variadicScalarOperands(ci.Common().Args[1]); ok && len(ops) >= 1 && len(ops) <= 4 {
					terms := []string{args[0].term()}
					for _, op := range ops {
						v := e.val(fr, st, op)
						if v.K == KBool {
							terms = append(terms, ite(v.term(), "1", "0"))
						} else {
							terms = append(terms, v.term())
						}
					}
					e.note("fmt.Sprintf of a constant format and scalar arguments is modelled as an uninterpreted function of the format and the argument values (library semantics assumed)")
					name := fmt.Sprintf("sprintf%d", len(ops))
					e.w.declareUF(e.s, name, len(ops)+1, "Int")
					return e.nameVal(intVal(rt, app(name, terms...)), "str"), true
				}
			}
		}
		r := e.fresh(rt, "str")
		return r, true
	}
	if strings.HasPrefix(full, "(*github.com/lni/dragonboat/v4/internal/server.InMemRateLimiter).") {
		// rate limiter bookkeeping is not part of any modelled state
		switch callee.Name() {
		case "Increase", "Decrease", "Set", "Tick", "Reset", "SetFollowerState", "ResetFollowerState":
			return unitVal(), true
		case "Enabled", "RateLimited":
			return boolVal(e.s.Fresh("rl", "Bool")), true
		case "Get":
			r := e.fresh(rt, "rl")
			e.assume(st, e.wf(r, st.alloc))
			return r, true
		}
	}
	return nil, false
}

func (e *Enc) lockOp(st *State, m string, v string, acquire bool) *Val {
	h := e.comp(st, "L:held", "(Array Int Int)")
	if acquire {
		// partial correctness: Lock returns only once the mutex has been acquired, which in a
		// sequential execution means it was free (a writer) or not write-locked (a reader) when
		// the call was made; a path on which it is not never gets past this point
		if v == "2" {
			e.assume(st, fmt.Sprintf("(= (select %s %s) 0)", h, m))
		} else {
			e.assume(st, fmt.Sprintf("(not (= (select %s %s) 2))", h, m))
		}
	}
	e.setComp(st, "L:held", "(Array Int Int)", sto(h, m, v))
	return unitVal()
}

// ---------- syntactic write sets of calls (for loop havoc) ----------

func (e *Enc) callWriteSet(fr *Frame, li *loopInfo, st *State, cc *ssa.CallCommon, ws WS, allocs *bool, all *bool, depth int) {
	addLeaves := func(t types.Type, ctx string, fresh bool) {
		var lvs []leaf
		e.memLeaves(t, ctx, &lvs)
		for _, lf := range lvs {
			if fresh {
				ws.rng(lf.suffix, lf.sort, "fresh", "")
			} else {
				ws.whole(lf.suffix, lf.sort)
			}
		}
	}
	if b, ok := cc.Value.(*ssa.Builtin); ok {
		switch b.Name() {
		case "append":
			*allocs = true
			addLeaves(elemType(cc.Args[0].Type()), "", false)
		case "copy":
			addLeaves(elemType(cc.Args[0].Type()), "", false)
		case "delete":
			e.mapWriteSet(cc.Args[0].Type().Underlying().(*types.Map), ws, false)
		}
		return
	}
	*allocs = true
	if cc.IsInvoke() {
		if n, ok := types.Unalias(cc.Value.Type()).(*types.Named); ok {
			tn := n.Obj().Name()
			if tn == "ILogger" || tn == "IRaftEventListener" || tn == "ISystemEventListener" || (tn == "error" && cc.Method.Name() == "Error") {
				return
			}
			pk := ""
			if n.Obj().Pkg() != nil {
				pk = n.Obj().Pkg().Path()
			}
			if c := e.w.contractByKey(pk, "("+tn+")."+cc.Method.Name()); c != nil {
				sig := cc.Signature()
				names := []string{c.RecvName()}
				tys := []types.Type{cc.Value.Type()}
				for i := 0; i < sig.Params().Len(); i++ {
					n := sig.Params().At(i).Name()
					if n == "" || n == "_" {
						n = fmt.Sprintf("arg%d", i)
					}
					names = append(names, n)
					tys = append(tys, sig.Params().At(i).Type())
				}
				e.contractWriteSet(c, names, tys, ws, all)
				return
			}
		} else if cc.Method.Name() == "Error" {
			return
		}
		*all = true
		return
	}
	callee := cc.StaticCallee()
	if callee == nil {
		if u, ok := cc.Value.(*ssa.UnOp); ok {
			if g, ok := u.X.(*ssa.Global); ok {
				callee = e.w.constFuncGlobal(g)
			}
			if fa, ok := u.X.(*ssa.FieldAddr); ok {
				if n, ok := derefNamed(fa.X.Type()); ok && n.Obj().Pkg() != nil {
					stt := n.Underlying().(*types.Struct)
					key := "fieldfunc." + n.Obj().Name() + "." + stt.Field(fa.Field).Name()
					if c := e.w.contractByKey(n.Obj().Pkg().Path(), key); c != nil {
						sig := cc.Signature()
						var names []string
						var tys []types.Type
						for i := 0; i < sig.Params().Len(); i++ {
							names = append(names, sig.Params().At(i).Name())
							tys = append(tys, sig.Params().At(i).Type())
						}
						e.contractWriteSet(c, names, tys, ws, all)
						return
					}
				}
			}
		}
	}
	if callee == nil {
		if n, ok := cc.Value.Type().(*types.Named); ok && n.Obj().Pkg() != nil {
			if c := e.w.contractByKey(n.Obj().Pkg().Path(), "functype."+n.Obj().Name()); c != nil {
				sig := cc.Signature()
				var names []string
				var tys []types.Type
				for i := 0; i < sig.Params().Len(); i++ {
					names = append(names, sig.Params().At(i).Name())
					tys = append(tys, sig.Params().At(i).Type())
				}
				e.contractWriteSet(c, names, tys, ws, all)
				return
			}
		}
		*all = true
		return
	}
	full := callee.String()
	switch {
	case strings.HasPrefix(full, "(*sync.Mutex)."), strings.HasPrefix(full, "(*sync.RWMutex)."):
		ws.whole("L:held", "(Array Int Int)")
		return
	case strings.HasPrefix(full, "sync/atomic.Store"), strings.HasPrefix(full, "sync/atomic.Add"), strings.HasPrefix(full, "sync/atomic.CompareAndSwap"):
		addLeaves(derefType(cc.Args[0].Type()), e.staticComp(cc.Args[0]), false)
		return
	case strings.HasPrefix(full, "sync/atomic.Load"):
		return
	case strings.HasPrefix(full, "(*github.com/lni/dragonboat/v4/internal/server.InMemRateLimiter)."):
		return
	case strings.HasPrefix(full, "(encoding/binary.bigEndian).Put") || strings.HasPrefix(full, "(encoding/binary.littleEndian).Put"):
		addLeaves(elemType(cc.Args[len(cc.Args)-2].Type()), "", false)
		return
	case strings.HasPrefix(full, "(encoding/binary.bigEndian).Uint") || strings.HasPrefix(full, "(encoding/binary.littleEndian).Uint"):
		return
	case full == "math.Ceil" || full == "errors.Is" || full == "github.com/cockroachdb/errors.Is" || full == "fmt.Sprintf" || full == "fmt.Errorf" || full == "errors.New":
		return
	case strings.HasPrefix(full, "github.com/cockroachdb/errors."):
		return
	}
	if isLogArgHelper(callee) {
		return
	}
	c := e.w.contractFor(callee)
	if c != nil && !c.Inline {
		var names []string
		var tys []types.Type
		for _, p := range callee.Params {
			names = append(names, p.Name())
			tys = append(tys, p.Type())
		}
		e.contractWriteSet(c, names, tys, ws, all)
		return
	}
	if callee.Blocks != nil && e.w.inRepo(funcPkgPath(callee)) {
		if depth > maxInlineDepth {
			*all = true
			return
		}
		for _, b := range callee.Blocks {
			for _, in := range b.Instrs {
				e.writeSet(fr, li, st, in, ws, allocs, all, depth+1)
			}
		}
		return
	}
	if e.w.pureExternal(full) {
		return
	}
	*all = true
}

func (e *Enc) contractWriteSet(c *FuncContract, names []string, tys []types.Type, ws WS, all *bool) {
	if len(c.Modifies) == 0 {
		return
	}
	vars := map[string]*Val{}
	for i, n := range names {
		if n != "" && n != "_" {
			vars[n] = e.fresh(tys[i], "ws")
		}
	}
	scratch := &State{reach: "true", heap: map[string]string{}, alloc: "0"}
	cpkg := c.Pkg
	if c.SpecPkg != "" {
		cpkg = c.SpecPkg
	}
	env := &SpecEnv{e: e, cur: scratch, old: scratch, vars: vars, pkg: cpkg}
	for _, t := range e.modTargets(c, env) {
		ws.whole(t.comp, t.sort)
	}
}

func contractMentionsCaptured(c *FuncContract) bool {
	for _, m := range c.Modifies {
		if strings.Contains(m.Src, "captured(") {
			return true
		}
	}
	return false
}

// ---------- results of calls cannot point at locals that have not escaped yet ----------
// A callee can only return pointers to objects that existed and were reachable to it, or to
// fresh objects. A local variable of the caller whose address has not been handed out before
// the call (every escaping use comes strictly later) is neither: results do not alias it.

func escapingUses(v ssa.Value, out *[]ssa.Instruction, seen map[ssa.Value]bool) {
	if seen[v] {
		return
	}
	seen[v] = true
	refs := v.Referrers()
	if refs == nil {
		return
	}
	for _, r := range *refs {
		switch x := r.(type) {
		case *ssa.FieldAddr:
			if x.X == v {
				escapingUses(x, out, seen)
				continue
			}
		case *ssa.IndexAddr:
			if x.X == v {
				escapingUses(x, out, seen)
				continue
			}
		case *ssa.UnOp:
			if x.Op == token.MUL {
				continue
			}
		case *ssa.Store:
			if x.Val != v {
				continue
			}
		case *ssa.DebugRef:
			continue
		}
		*out = append(*out, r)
	}
}

func instrIndex(b *ssa.BasicBlock, in ssa.Instruction) int {
	for i, x := range b.Instrs {
		if x == in {
			return i
		}
	}
	return -1
}

func (e *Enc) resultsAvoidUnescaped(fr *Frame, st *State, site ssa.Instruction, res *Val) {
	if fr == nil || site == nil || site.Block() == nil || res == nil {
		return
	}
	type pr struct {
		term string
		size int64
	}
	var ptrs []pr
	var collect func(v *Val)
	collect = func(v *Val) {
		if v == nil {
			return
		}
		switch v.K {
		case KInt:
			if v.T != nil && (isPointer(v.T)) {
				ptrs = append(ptrs, pr{v.S[0], sizeOf(derefType(v.T))})
			}
		case KIface:
			ptrs = append(ptrs, pr{v.S[1], 1})
		case KStruct, KTuple:
			for _, f := range v.F {
				collect(f)
			}
		}
	}
	collect(res)
	if len(ptrs) == 0 {
		return
	}
	sb := site.Block()
	si := instrIndex(sb, site)
	for _, b := range fr.fn.Blocks {
		for _, in := range b.Instrs {
			a, ok := in.(*ssa.Alloc)
			if !ok {
				continue
			}
			av, have := fr.vals[a]
			if !have {
				continue
			}
			// every loop that contains the call must contain the allocation as well
			okLoops := true
			for _, li := range fr.loops {
				if li.body[sb] && !li.body[a.Block()] {
					okLoops = false
					break
				}
			}
			if !okLoops {
				continue
			}
			var uses []ssa.Instruction
			escapingUses(a, &uses, map[ssa.Value]bool{})
			unescaped := true
			for _, u := range uses {
				ub := u.Block()
				if ub == nil {
					unescaped = false
					break
				}
				if ub == sb {
					if instrIndex(sb, u) <= si {
						unescaped = false
						break
					}
					continue
				}
				if !sb.Dominates(ub) {
					unescaped = false
					break
				}
			}
			if !unescaped {
				continue
			}
			sz := sizeOf(derefType(a.Type()))
			for _, p := range ptrs {
				e.assume(st, fmt.Sprintf("(or (<= (+ %s %d) %s) (>= %s (+ %s %d)))", p.term, p.size, av.term(), p.term, av.term(), sz))
			}
		}
	}
}

func pow256(w int) string {
	x := new(big.Int).Exp(big.NewInt(256), big.NewInt(int64(w)), nil)
	return x.String()
}

// variadicScalarOperands recognises the slice the compiler builds for a variadic ...interface{}
// argument (new [n]interface{}; stores of MakeInterface values; slice) and returns the operands when
// all of them are of integer, bool or string type.
func variadicScalarOperands(v ssa.Value) ([]ssa.Value, bool) {
	sl, ok := v.(*ssa.Slice)
	if !ok {
		return nil, false
	}
	al, ok := sl.X.(*ssa.Alloc)
	if !ok {
		return nil, false
	}
	at, ok := derefType(al.Type()).Underlying().(*types.Array)
	if !ok || at.Len() > 4 {
		return nil, false
	}
	ops := make([]ssa.Value, at.Len())
	for _, ref := range *al.Referrers() {
		ia, ok := ref.(*ssa.IndexAddr)
		if !ok {
			continue
		}
		c, ok := ia.Index.(*ssa.Const)
		if !ok || c.Value == nil {
			return nil, false
		}
		idx := int(c.Int64())
		for _, r2 := range *ia.Referrers() {
			st, ok := r2.(*ssa.Store)
			if !ok || st.Addr != ia {
				continue
			}
			mi, ok := st.Val.(*ssa.MakeInterface)
			if !ok {
				return nil, false
			}
			b, ok := mi.X.Type().Underlying().(*types.Basic)
			if !ok || b.Info()&(types.IsInteger|types.IsBoolean|types.IsString) == 0 {
				return nil, false
			}
			if idx < 0 || idx >= len(ops) || ops[idx] != nil {
				return nil, false
			}
			ops[idx] = mi.X
		}
	}
	for _, o := range ops {
		if o == nil {
			return nil, false
		}
	}
	return ops, true
}
