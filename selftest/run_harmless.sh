#!/bin/bash
# Must-pass corpus: behaviour-preserving refactorings written by independent sub-agents (selftest/harmless/*.diff).
# Each is applied to a scratch copy of /repo; the contracts of every function it touches are re-checked for every
# property. Expected: no VIOLATION line. (UNDECIDED lines -- a contract naming a renamed local -- are reported, not failures.)
cd /verif
bad=0
for p in selftest/harmless/*.diff; do
  out=$(tools/harmless.sh $p 2>&1)
  v=$(echo "$out" | grep -c '^VIOLATION')
  u=$(echo "$out" | grep -c '^UNDECIDED')
  echo "$(basename $p): violations=$v undecided=$u"
  [ "$v" -gt 0 ] && { bad=1; echo "$out" | grep '^VIOLATION' | cut -c1-200; }
done
exit $bad
