#!/usr/bin/env python3
"""Must-fail corpus: every mutant (a property-breaking edit of /repo that still compiles) must
produce a VIOLATION of the expected property / obligation prefix. Mutants are applied to a
scratch copy under /var/tmp which is removed afterwards."""
import os, re, subprocess, sys, shutil, glob, json, tempfile
V='/verif'
def main():
    only = sys.argv[1:] 
    pats = sorted(glob.glob(V+'/selftest/mutants/*.patch'))
    # seeded changes from independent sub-agents that the checks are known to detect
    seeds = []
    for mf in sorted(glob.glob(V+'/seeded/*/meta.json')):
        m = json.load(open(mf))
        if str(m.get('detected_by_check','')).startswith('yes'):
            seeds.append((os.path.dirname(mf)+'/patch.diff', m['id'], m['property']))
    ok = True
    results=[]
    # work from a snapshot of /repo's working tree taken now, so that edits made to /repo while the
    # corpus runs (it takes a long time) cannot leak half-written contract files into a mutant's copy
    base=tempfile.mkdtemp(prefix='govc-st-base-',dir='/var/tmp')
    subprocess.run(['rsync','-a','--exclude','.git','/repo/',base+'/'],check=True)
    import atexit
    atexit.register(lambda: shutil.rmtree(base,ignore_errors=True))
    items = [(p, os.path.basename(p), None) for p in pats] + [(sp, sid+'-seed', prop) for sp, sid, prop in seeds]
    def run_one(item):
        p, name, sprop = item
        lines=[]
        good=True
        if sprop is not None:
            prop, obl = sprop, ''
        else:
            hdr=open(p).read().split('\n')
            exp=[l for l in hdr if l.startswith('# expect:')]
            if not exp:
                return name, True, ['SKIP (no expect) '+name]
            prop,obl = tuple(exp[0].split()[2:4])
        d=tempfile.mkdtemp(prefix='govc-st-',dir='/var/tmp')
        vd=tempfile.mkdtemp(prefix='govc-st-verif-',dir='/var/tmp')
        try:
            subprocess.run(['rsync','-a',base+'/',d+'/'],check=True)
            r=subprocess.run(['patch','-p1','-s','-d',d,'-i',p],capture_output=True,text=True)
            if r.returncode!=0:
                return name, False, ['FAIL (patch does not apply) '+name+' '+r.stdout[-300:]]
            # a must-fail run only has to see the expected obligation fail: a short per-obligation limit keeps the
            # corpus fast (an obligation that times out counts as failed, which is what is expected here)
            cmd=[V+'/bin/govc','check','-prop',prop,'-repo',d,'-no-evidence','-verif',vd,'-timeout',os.environ.get('SELFTEST_TIMEOUT','40')]
            # obligations are generated per function: when the expected obligation names a
            # function, only that function's obligations are generated (same verdict, much faster)
            fn = obl.split('/')[0].split('.')[-1] if obl else ''
            if fn and not os.environ.get('SELFTEST_FULL'):
                cmd += ['-func', r'(^|[.)])'+re.escape(fn)+'$']
            r=subprocess.run(cmd,capture_output=True,text=True)
            if '-func' in cmd and 'no functions under contract' in r.stdout:
                cmd = cmd[:cmd.index('-func')]
                r=subprocess.run(cmd,capture_output=True,text=True)
            out=r.stdout
            hit=[l for l in out.split('\n') if l.startswith('VIOLATION') and ('obligation='+obl) in l]
            allv=[l for l in out.split('\n') if l.startswith('VIOLATION')]
            if os.environ.get('SELFTEST_LOG'):
                with open(os.environ['SELFTEST_LOG'],'a') as f:
                    for l in allv: f.write(name+'\t'+l+'\n')
            if hit:
                lines.append('ok   %-45s -> %s'%(name, re.search(r'obligation=(\S+)',hit[0]).group(1)))
            else:
                good=False
                lines.append('MISS %-45s expected %s %s; got %d violations; exit %d'%(name,prop,obl,len(allv),r.returncode))
                for l in allv[:3]: lines.append('       '+l[:200])
                if not allv: lines.append('       '+out[-400:])
            return name, good, lines
        finally:
            shutil.rmtree(d,ignore_errors=True)
            shutil.rmtree(vd,ignore_errors=True)
    todo=[it for it in items if not only or any(it[1].startswith(o) or o in it[1] for o in only)]
    from concurrent.futures import ThreadPoolExecutor
    jobs=int(os.environ.get('SELFTEST_JOBS','4'))
    with ThreadPoolExecutor(max_workers=jobs) as ex:
        for name, good, lines in ex.map(run_one, todo):
            for l in lines: print(l, flush=True)
            if not good: ok=False
            results.append((name,good))
    sys.exit(0 if ok else 1)
main()
