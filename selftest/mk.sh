#!/bin/bash
# usage: mk.sh <name> <prop> <obligation-prefix> <file> <sed-expr>
# creates selftest/mutants/<name>.patch from a sed edit of /repo/<file>
set -e
name=$1; prop=$2; obl=$3; file=$4; expr=$5
d=$(mktemp -d /var/tmp/mk.XXXX)
mkdir -p $d/a/$(dirname $file) $d/b/$(dirname $file)
cp /repo/$file $d/a/$file; cp /repo/$file $d/b/$file
sed -i "$expr" $d/b/$file
if cmp -s $d/a/$file $d/b/$file; then echo "no change for $name"; rm -rf $d; exit 1; fi
(echo "# mutant: $name"; echo "# expect: $prop $obl"; cd $d && diff -u a/$file b/$file) > /verif/selftest/mutants/$name.patch || true
rm -rf $d
